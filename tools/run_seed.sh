#!/bin/bash
# run_seed.sh <seed-dir> <prop> [tier]: applies the seeded patch to /repo, runs the property check, reverts.
seed="$1"; prop="$2"; tier="${3:-quick}"
cd /repo || exit 2
if [ -n "$(git status --porcelain --untracked-files=no)" ]; then echo "/repo not clean"; exit 2; fi
git apply "$seed/patch.diff" || { echo "patch does not apply on current /repo"; exit 2; }
/verif/bin/gocv verify --prop "$prop" --tier "$tier" --no-evidence > "/tmp/seedrun-$(basename $seed)-$prop.out" 2>&1; rc=$?
git checkout -- . 
echo "seed $(basename $seed) prop $prop: exit $rc"
grep -E "^VIOLATION|ENGINE ERROR" "/tmp/seedrun-$(basename $seed)-$prop.out" | cut -c1-330
exit 0
