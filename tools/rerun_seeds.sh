#!/bin/bash
# rerun_seeds.sh <seed-id>... : like rerun_all_seeds.sh for the listed seeds only; replaces their rows in seeded/SUMMARY.md
export GOFLAGS=-mod=mod GOPROXY=off GOSUMDB=off GOTOOLCHAIN=local
cd /repo || exit 2
if [ -n "$(git status --porcelain --untracked-files=no)" ]; then echo "/repo not clean"; exit 2; fi
out=/verif/seeded/SUMMARY.md
for id in "$@"; do
  d=/verif/seeded/$id; prop=${id%%-*}
  git apply --check "$d/patch.diff" 2>/dev/null || { echo "$id does not apply"; continue; }
  git apply "$d/patch.diff"
  /verif/bin/gocv verify --prop "$prop" --tier quick --no-evidence > /tmp/seedrun-$id-$prop.out 2>&1; rc=$?
  git checkout -- .
  det=$(grep -E "^VIOLATION" /tmp/seedrun-$id-$prop.out | sed -E 's/.*obligation=([^ ]+).*/\1/' | sort -u)
  n=$(echo "$det" | grep -c .)
  first=$(echo "$det" | head -2 | tr '\n' ' ')
  repl=$(grep -E "^VIOLATION" /tmp/seedrun-$id-$prop.out | grep -vc "no-failing-input-found")
  python3 - "$d" "$rc" "$det" "$repl" <<'PY'
import json,sys
d,rc,det,repl=sys.argv[1:5]
p=d+'/meta.json'; m=json.load(open(p))
m['applies_to_current_tree']=True
m['detected']=(rc=='1' and bool(det.strip()))
m['detected_by_obligations']=det.split()
m['violations_with_replayed_input']=int(repl)
m['check_exit_code']=int(rc)
json.dump(m,open(p,'w'),indent=1)
PY
  row="| $id | $prop | yes | $([ $rc -eq 1 ] && [ $n -gt 0 ] && echo yes || echo "NO (exit $rc)") | $first | $repl |"
  python3 - "$out" "$id" "$row" <<'PY'
import sys
out,id,row=sys.argv[1:4]
ls=open(out).read().split('\n')
ls=[row if l.startswith('| %s |'%id) else l for l in ls]
open(out,'w').write('\n'.join(ls))
PY
  echo "$row" | cut -c1-200
done
