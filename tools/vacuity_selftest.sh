#!/bin/bash
# vacuity_selftest.sh [prop...] : branch-level vacuity self-test. Re-runs the property checks with one reachability cover
# per basic block and per return point of every function under contract (GOCV_COVER_RETURNS=1) and lists the blocks the
# solver proves unreachable under the precondition and the assumed contracts. Each such block is either excluded on
# purpose (a panic branch behind a precondition, a dynamic type the precondition rules out, the second call of a pure
# getter) or a contradiction between assumed facts - a vacuity hole, which makes every obligation behind it pass for
# no reason. The reviewed list is /verif/selftest/expected_unreachable.txt; anything not on it is printed as NEW.
# (Found this way: the unguarded entry-heap closure axiom and the missing havoc of interface-boxed out-parameters.)
cd /verif || exit 2
props="$@"; [ -z "$props" ] && props=$(python3 -c "import json;print(' '.join(c['property'] for c in json.load(open('MANIFEST.json'))['checks']))" 2>/dev/null)
[ -z "$props" ] && props="C01 C02 C03 C04 C05 C06 C07 C08 C10 C12 C15 C16 C18 C19 C20"
new=0
for p in $props; do
  GOCV_COVER_RETURNS=1 bin/gocv verify --prop $p --no-evidence 2>&1 | grep "note: unreachable" | sed -E 's/^note: unreachable return: //; s/#[0-9]+\]$/]/' | sort -u > /tmp/vac-$p.txt
  while read -r l; do
    if ! grep -qxF "$l" selftest/expected_unreachable.txt 2>/dev/null; then echo "NEW unreachable block: $l"; new=$((new+1)); fi
  done < /tmp/vac-$p.txt
  echo "$p: $(wc -l < /tmp/vac-$p.txt) unreachable blocks ($new new so far)"
done
[ $new -eq 0 ]
