#!/bin/bash
# run_benign.sh <dir-with-patch.diff> : applies a behaviour-preserving change to /repo, runs every property's quick check,
# reverts, and prints which checks raised an alarm (every alarm here is a false alarm by construction).
d="$1"; id=$(basename "$d")
cd /repo || exit 2
if [ -n "$(git status --porcelain --untracked-files=no)" ]; then echo "/repo not clean"; exit 2; fi
git apply "$d/patch.diff" || { echo "$id: patch does not apply"; exit 2; }
alarms=""
for p in C01 C02 C03 C04 C05 C06 C07 C08 C10 C12 C15 C16 C18 C19 C20; do
  /verif/bin/gocv verify --prop $p --tier quick --no-evidence > /tmp/benignrun-$id-$p.out 2>&1; rc=$?
  if [ $rc -ne 0 ]; then alarms="$alarms $p(rc=$rc)"; fi
done
git checkout -- .
echo "benign $id: alarms:${alarms:- none}"
for p in C01 C02 C03 C04 C05 C06 C07 C08 C10 C12 C15 C16 C18 C19 C20; do grep -E "^VIOLATION|ENGINE ERROR" /tmp/benignrun-$id-$p.out 2>/dev/null | sed -E 's/replay=[^ ]* //' | cut -c1-260; done
