#!/usr/bin/env python3
# mk_seed_prompts.py <tag> <n> <prop>... : writes /tmp/seedprompt-<prop><tag>.txt for a seeding sub-agent (n changes each)
# from the template tools/seedprompt_template.txt (the C16 round-1 brief) and /verif/properties.jsonl.
import json,sys
tag,n=sys.argv[1],int(sys.argv[2]); ids=sys.argv[3:]
tmpl=open('/verif/tools/seedprompt_template.txt').read()
props={json.loads(l)['id']:json.loads(l) for l in open('/verif/properties.jsonl')}
head_end=tmpl.index('## The property'); what=tmpl.index('## What I need from you')
word={1:'ONE',2:'TWO',3:'THREE'}[n]; lw={1:'One',2:'Two',3:'Three'}[n]
for pid in ids:
    p=props[pid]; t=pid+tag; a=p['anchors']
    head=tmpl[:head_end].replace('/tmp/seedwt-C16','/tmp/seedwt-'+t).replace('THREE',word)
    sec="## The property (%s: %s)\n%s\n\nQuantifier: %s\n\nCode anchors (where the mechanisms live): %s\nFiles: %s\nObserve at: %s\n\n"%(pid,p['title'],p['statement'],p['quantifier']['text'],json.dumps(a.get('mechanism')),", ".join(a.get('files',[])),json.dumps(a.get('observe_at')))
    rest=tmpl[what:].replace('/tmp/seedout-C16','/tmp/seedout-'+t).replace('Three different changes',lw+' different changes').replace('(n = 1, 2, 3)','(n = %s)'%", ".join(str(i+1) for i in range(n))).replace('each of the three changes','each of the %s changes'%lw.lower())
    rest+="\nDo not read any other directory under /tmp (other agents' work may be there).\n"
    open('/tmp/seedprompt-%s.txt'%t,'w').write(head+sec+rest)
    print('/tmp/seedprompt-%s.txt'%t)
