#!/bin/bash
# rerun_all_seeds.sh : applies every seeded patch to /repo in turn, runs the property's quick check, reverts, and
# rewrites meta.json (detected / obligations) and /verif/seeded/SUMMARY.md. /repo must be clean.
export GOFLAGS=-mod=mod GOPROXY=off GOSUMDB=off GOTOOLCHAIN=local
cd /repo || exit 2
if [ -n "$(git status --porcelain --untracked-files=no)" ]; then echo "/repo not clean"; exit 2; fi
out=/verif/seeded/SUMMARY.md
echo "| seed | property | applies | detected | obligations (first two) | replayed input |" > $out
echo "|------|----------|---------|----------|-------------------------|----------------|" >> $out
for d in /verif/seeded/*/; do
  id=$(basename $d); prop=${id%%-*}
  [ -f "$d/patch.diff" ] || continue
  if ! git apply --check "$d/patch.diff" 2>/dev/null; then
    echo "| $id | $prop | NO (patch no longer applies to the repaired tree) | - | - | - |" >> $out
    python3 - "$d" <<'PY'
import json,sys
p=sys.argv[1]+'/meta.json'; m=json.load(open(p)); m['applies_to_current_tree']=False; json.dump(m,open(p,'w'),indent=1)
PY
    continue
  fi
  git apply "$d/patch.diff"
  /verif/bin/gocv verify --prop "$prop" --tier quick --no-evidence > /tmp/seedrun-$id-$prop.out 2>&1; rc=$?
  git checkout -- .
  det=$(grep -E "^VIOLATION" /tmp/seedrun-$id-$prop.out | sed -E 's/.*obligation=([^ ]+).*/\1/' | sort -u)
  n=$(echo "$det" | grep -c .)
  first=$(echo "$det" | head -2 | tr '\n' ' ')
  repl=$(grep -E "^VIOLATION" /tmp/seedrun-$id-$prop.out | grep -vc "no-failing-input-found")
  python3 - "$d" "$rc" "$det" "$repl" <<'PY'
import json,sys
d,rc,det,repl=sys.argv[1:5]
p=d+'/meta.json'; m=json.load(open(p))
m['applies_to_current_tree']=True
m['detected']=(rc=='1' and bool(det.strip()))
m['detected_by_obligations']=det.split()
m['violations_with_replayed_input']=int(repl)
m['check_exit_code']=int(rc)
json.dump(m,open(p,'w'),indent=1)
PY
  echo "| $id | $prop | yes | $([ $rc -eq 1 ] && [ $n -gt 0 ] && echo yes || echo "NO (exit $rc)") | $first | $repl |" >> $out
done
cat $out | cut -c1-200
