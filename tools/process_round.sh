#!/bin/bash
# process_round.sh <prop> <outdir> <first-number> : takes the seeds a sub-agent left in <outdir>/1, <outdir>/2, ... , numbers
# them <prop>-<n> from <first-number>, confirms each in a scratch worktree (tools/confirm_seed.sh), runs the property's
# quick check with the patch applied to /repo (tools/run_seed.sh) and keeps the confirmed ones under /verif/seeded/.
prop="$1"; out="$2"; n="$3"
for d in "$out"/*/; do
  [ -f "$d/patch.diff" ] || continue
  id="$prop-$n"; n=$((n+1))
  rm -rf "/tmp/seeds/$id"; mkdir -p /tmp/seeds; cp -r "$d" "/tmp/seeds/$id"
  /verif/tools/confirm_seed.sh "/tmp/seeds/$id"
  if grep -q "RESULT: confirmed" "/tmp/seeds/$id/confirm.log"; then
    /verif/tools/run_seed.sh "/tmp/seeds/$id" "$prop" | cut -c1-400
    /verif/tools/keep_seed.sh "/tmp/seeds/$id" "$prop" "see notes.md"
  else
    echo "$id NOT confirmed"; tail -3 "/tmp/seeds/$id/confirm.log"
  fi
done
