#!/bin/bash
# mk_seed_wt.sh <id> : scratch worktree of /repo HEAD for a seeding sub-agent, with the contract files removed
# (committed as a detached commit inside the worktree so that `git diff` there shows only the agent's change)
id="$1"; wt=/tmp/seedwt-$id
git -C /repo worktree add -q --detach "$wt" HEAD || exit 2
cd "$wt" && find . -name 'zz_contracts_verif.go' -delete && find . -name 'zz_*verif*' -delete
git -C "$wt" -c user.name=x -c user.email=x@x commit -q -am "base for seeding" 
mkdir -p /tmp/seedout-$id
echo "$wt"
