#!/usr/bin/env python3
# Regenerates /verif/MANIFEST.json from /verif/props/*.json (claimed properties) and the not-applicable list below.
import json, glob, os, subprocess
NA = {
 "C09":"data-race freedom quantifies over schedules; sequential Hoare-style VCs have no permission logic, no thread-modular Go verifier is installed (DESIGN §4 C09)",
 "C11":"parse(print(t)) lives in the ANTLR-generated table-driven parser; a contract for it would be a hand model of the grammar (DESIGN §4 C11)",
 "C13":"round trips are properties of decimal.String/regexp/time.Format/time.Parse/encoding/json; contracts on those would restate the property as an axiom (DESIGN §4 C13)",
 "C14":"the inverse pair is strconv.Quote vs the generated STRING lexer rule and ANTLR parser; no Go-side contract can decide it (DESIGN §4 C14)",
 "C17":"needs denotational semantics of two generated grammars (Excellent1, Excellent3); not expressible as contracts on the Go functions without modelling both languages (DESIGN §4 C17)",
}
PENDING_REASON = "check not built (DESIGN §8.1)"
TECH = "contract-based deductive verification: VCs generated from go/ssa of the real functions against //@ contracts, discharged by SMT (z3 5.1/4.8, cvc5)"
allids = [json.loads(l)["id"] for l in open("/verif/properties.jsonl")]
checks=[]; claimed=[]
for f in sorted(glob.glob("/verif/props/C*.json")):
    c=json.load(open(f))
    if not c.get("claimed", True): continue
    pid=c["id"]; claimed.append(pid)
    checks.append({
     "property_id":pid,
     "quick_cmd":f"/verif/check {pid} quick",
     "thorough_cmd":f"/verif/check {pid} thorough",
     "evidence_file":f"/verif/evidence/{pid}.json",
     "replay_cmd_template":"/verif/check --replay {path}",
     "engine":"gocv",
     "level_claimed":{"category":c["level"],"text":c.get("level_text",c.get("explanation","")),"design_ref":f"DESIGN.md §4 {pid}"},
     "level_note":c.get("level_note","; ".join(c.get("assumptions",[]))),
     "technique":c.get("technique",TECH)})
hooks=subprocess.run(["git","-C","/repo","log","--format=%h %s","d2d4c7c..HEAD"],capture_output=True,text=True).stdout.strip().split("\n")
hook_commits=[l.split()[0] for l in hooks if l and "verif hooks" in l]
m={"version":1,"setup_cmd":"cd /verif && ./setup.sh",
 "hooks":{"guard":"verif","enable":"go build -tags verif (comment-only zz_contracts_verif.go files carry the //@ contracts; gocv loads /repo with -tags verif)","baseline_off_cmd":"cd /repo && go test -vet=off -count=1 ./...","source_commits":hook_commits,"add_only":True},
 "engines":[{"name":"gocv","path":"/verif/gocv","serves_properties":claimed,"kind_free_text":"VC generator over go/ssa of the real code + contracts in //@ comments, discharged by z3/cvc5; counterexamples replayed with go test -overlay"}],
 "checks":checks,
 "not_applicable":[{"property_id":k,"reason":v} for k,v in NA.items()]+[{"property_id":k,"reason":PENDING_REASON} for k in allids if k not in NA and k not in claimed],
 "notes":"see DESIGN.md; known findings and fixes in /verif/known_findings.json; seeded changes in /verif/seeded"}
json.dump(m,open("/verif/MANIFEST.json","w"),indent=1)
print("claimed:",claimed)
