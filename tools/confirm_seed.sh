#!/bin/bash
# confirm_seed.sh <seed-dir> : confirms a seeded change in a scratch worktree of /repo (pinned pristine commit):
# builds, existing suite passes with it, demo fails with it and passes without it. Writes <seed-dir>/confirm.log
export GOFLAGS=-mod=mod GOPROXY=off GOSUMDB=off GOTOOLCHAIN=local
seed="$1"; id=$(basename "$seed"); wt=/tmp/confirm-$id
base=${BASE:-HEAD}
log="$seed/confirm.log"; : > "$log"
git -C /repo worktree add -q --detach "$wt" "$base" || exit 2
cleanup() { git -C /repo worktree remove --force "$wt" >/dev/null 2>&1; }
trap cleanup EXIT
cd "$wt" || exit 2
demo=$(cat "$seed/DEMO_PATH.txt" | tr -d '\n ')
demofile=$(basename "$demo"); demopkg=./$(dirname "$demo")
testname=$(grep -o 'func Test[A-Za-z0-9_]*' "$seed/$demofile" | head -1 | sed 's/func //')
git apply "$seed/patch.diff" || { echo "RESULT: patch does not apply" >> "$log"; exit 1; }
go build ./... >> "$log" 2>&1 || { echo "RESULT: build fails" >> "$log"; exit 1; }
go test -vet=off -count=1 ./... > "$wt/suite.out" 2>&1
fails=$(grep -E '^(FAIL|---)' "$wt/suite.out" | grep -E '^FAIL\s' | grep -v -E 'cmd/docgen/docs|utils/po' | grep -v '^FAIL$')
echo "suite failures with change (excluding docgen/po which fail on pristine too): [$fails]" >> "$log"
cp "$seed/$demofile" "$wt/$demo"
go test -vet=off -count=1 -run "^$testname\$" "$demopkg" > "$wt/demo_with.out" 2>&1; with=$?
git apply -R "$seed/patch.diff"
go test -vet=off -count=1 -run "^$testname\$" "$demopkg" > "$wt/demo_without.out" 2>&1; without=$?
echo "demo $testname with change: exit $with; without: exit $without" >> "$log"
tail -5 "$wt/demo_with.out" >> "$log"
if [ -z "$fails" ] && [ $with -ne 0 ] && [ $without -eq 0 ]; then echo "RESULT: confirmed" >> "$log"; else echo "RESULT: NOT confirmed" >> "$log"; fi
tail -1 "$log"
