#!/bin/bash
# rerun_all_benign.sh : applies every behaviour-preserving change of /verif/benign/ to /repo in turn, runs every property's quick
# check, reverts; every alarm is a false alarm by construction. Writes /verif/benign/SUMMARY.md. /repo must be clean.
cd /verif
out=benign/SUMMARY.md
echo "| change | alarms |" > $out; echo "|---|---|" >> $out
for d in benign/*/; do
  [ -f "$d/patch.diff" ] || continue
  r=$(tools/run_benign.sh /verif/${d%/} 2>&1 | grep "^benign" | head -1)
  echo "| $(basename $d) | ${r#*alarms:} |" >> $out
done
cat $out
