#!/bin/bash
# keep_seed.sh <seed-dir> <prop> "<needs>" : store a confirmed seed under /verif/seeded/<id>/ with meta.json
seed="$1"; prop="$2"; needs="$3"; id=$(basename "$seed")
grep -q "RESULT: confirmed" "$seed/confirm.log" || { echo "$id not confirmed"; exit 1; }
dst=/verif/seeded/$id; mkdir -p "$dst"
cp "$seed/patch.diff" "$seed/DEMO_PATH.txt" "$seed/notes.md" "$seed/confirm.log" "$dst/" 2>/dev/null
cp "$seed"/zz_seed_*_test.go "$dst/" 2>/dev/null
det=$(grep -E "^VIOLATION" "/tmp/seedrun-$id-$prop.out" 2>/dev/null | sed -E 's/.*obligation=([^ ]+).*/\1/' | sort -u | tr '\n' ' ')
nofi=$(grep -c "no-failing-input-found" "/tmp/seedrun-$id-$prop.out" 2>/dev/null)
python3 - "$dst" "$prop" "$needs" "$det" "$nofi" <<'PY'
import json,sys
dst,prop,needs,det,nofi=sys.argv[1:6]
json.dump({"breaks_property":prop,"needs_to_manifest":needs,
 "confirmed_by":"tools/confirm_seed.sh in a scratch worktree of /repo at the pinned commit: go build ./..., go test ./... (only docgen/po fail, as on the pristine tree), demo fails with the change and passes without (confirm.log)",
 "check_run":"tools/run_seed.sh: git -C /repo apply patch.diff; gocv verify --prop %s --tier quick; git -C /repo checkout -- ."%prop,
 "detected_by_obligations":det.split(),"detected":bool(det.strip()),"violations_without_replayed_input":int(nofi or 0)},open(dst+"/meta.json","w"),indent=1)
PY
echo kept $id
