package cases_test

// Replay adapter for C04 obligations on the router tests (injected with `go test -overlay`): calls every registered test
// with text arguments (ASCII, non-ASCII of different encoded sizes, empty) in environments read from JSON with each input
// collation - including one the engine does not know, which ReadEnvironment accepts - and reports a panic.

import (
	"fmt"
	"os"
	"sort"
	"testing"

	"github.com/nyaruka/goflow/envs"
	"github.com/nyaruka/goflow/excellent/types"
	"github.com/nyaruka/goflow/flows/routers/cases"
)

func TestGocvReplayRouterTests(t *testing.T) {
	if _, err := os.ReadFile(os.Getenv("GOCV_REPLAY")); err != nil {
		t.Skip("no replay file")
	}
	words := []string{"", "a", "a b", "yes", "sí", "はい", "ééé", "abc", "ſ"}
	names := make([]string, 0, len(cases.XTESTS))
	for n := range cases.XTESTS {
		names = append(names, n)
	}
	sort.Strings(names)
	for _, col := range []string{"default", "confusables", "arabic_variants", "unknown_collation"} {
		env, err := envs.ReadEnvironment([]byte(fmt.Sprintf(`{"date_format":"DD-MM-YYYY","time_format":"tt:mm","timezone":"UTC","allowed_languages":["eng"],"input_collation":%q}`, col)))
		if err != nil {
			continue // rejected environments are fine
		}
		for _, n := range names {
			for _, a := range words {
				for _, b := range words {
					if p := func() (p string) {
						defer func() {
							if r := recover(); r != nil {
								p = fmt.Sprint(r)
							}
						}()
						cases.XTESTS[n].Call(env, []types.XValue{types.NewXText(a), types.NewXText(b)})
						return ""
					}(); p != "" {
						fmt.Printf("REPLAY: reproduced %s(%q, %q) in an environment with input_collation %q panics: %s\n", n, a, b, col, p)
						return
					}
				}
			}
		}
	}
	fmt.Println("REPLAY: not-reproduced")
}
