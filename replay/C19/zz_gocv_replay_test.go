package contactql

// Replay adapter for C19 (injected with `go test -overlay`): under the URN redaction policy every
// spelling of a condition on a URN property with a non-empty value must be rejected by ParseQuery.

import (
	"fmt"
	"os"
	"testing"

	"github.com/nyaruka/goflow/envs"
)

func TestGocvReplayRedactedQuery(t *testing.T) {
	if _, err := os.ReadFile(os.Getenv("GOCV_REPLAY")); err != nil {
		t.Skip("no replay file")
	}
	env := envs.NewBuilder().WithRedactionPolicy(envs.RedactionPolicyURNs).Build()
	for _, prop := range []string{"urn", "tel", "twitter", "urns.tel", "urns.twitter", "URNS.tel", "urns.TEL", "whatsapp", "urns.whatsapp"} {
		for _, op := range []string{"=", "!=", "~", "is", "has"} {
			for _, val := range []string{`"+1234567"`, `1234567`, `"bob"`} {
				q := fmt.Sprintf("%s %s %s", prop, op, val)
				parsed, err := ParseQuery(env, q, nil)
				if err == nil {
					fmt.Printf("REPLAY: reproduced query %q is accepted under the URN redaction policy (parsed as %s)\n", q, parsed)
					return
				}
				// also nested
				q2 := fmt.Sprintf("name = x AND (%s OR name = y)", q)
				if parsed, err := ParseQuery(env, q2, nil); err == nil {
					fmt.Printf("REPLAY: reproduced query %q is accepted under the URN redaction policy (parsed as %s)\n", q2, parsed)
					return
				}
			}
		}
	}
	fmt.Println("REPLAY: not-reproduced")
}
