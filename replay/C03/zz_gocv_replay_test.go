package modifiers_test

// Replay adapter for C03 obligations on modifiers (injected with `go test -overlay`).
// Evaluates the contract clauses (result <=> contact changed <=> change event logged; second
// application reports nothing) on the real modifiers, on the input region the counterexample names.

import (
	"encoding/json"
	"fmt"
	"os"
	"strings"
	"testing"

	"github.com/nyaruka/gocommon/urns"
	"github.com/nyaruka/goflow/assets"
	"github.com/nyaruka/goflow/envs"
	"github.com/nyaruka/goflow/flows"
	"github.com/nyaruka/goflow/flows/engine"
	"github.com/nyaruka/goflow/flows/events"
	"github.com/nyaruka/goflow/flows/modifiers"
	"github.com/nyaruka/goflow/test"
)

type gocvIn struct {
	Obligation string                 `json:"obligation"`
	Inputs     map[string]interface{} `json:"inputs"`
}

func gocvContactJSON(c *flows.Contact) string {
	b, _ := json.Marshal(c)
	// modified_on style fields do not exist on contacts; the JSON is the caller-visible state
	return string(b)
}

func gocvChangeEvents(log *test.EventLog) []string {
	var out []string
	for _, e := range log.Events {
		switch e.Type() {
		case events.TypeError, events.TypeFailure:
		default:
			out = append(out, e.Type())
		}
	}
	return out
}

func TestGocvReplayModifiers(t *testing.T) {
	d, err := os.ReadFile(os.Getenv("GOCV_REPLAY"))
	if err != nil {
		t.Skip("no replay file")
	}
	in := &gocvIn{}
	json.Unmarshal(d, in)
	env := envs.NewBuilder().Build()
	sa, err := test.LoadSessionAssets(env, "testdata/_assets.json")
	if err != nil {
		t.Fatal(err)
	}
	eng := engine.NewBuilder().WithMaxFieldChars(5).Build()
	contactJSON := `{"uuid": "5d76d86b-3bb9-4d5a-b822-c9d86f5d8e4f", "id": 1234567, "name": "%s", "status": "active", "created_on": "2018-06-20T11:40:30.123456789Z", "urns": %s}`
	type tcase struct {
		name string
		urns string
		mods []flows.Modifier
	}
	var cases []tcase
	switch {
	case strings.Contains(in.Obligation, "NameModifier") || strings.Contains(in.Obligation, "name_idempotent"):
		for _, cn := range []string{"Bob", "Rober", "Robert"} {
			for _, mn := range []string{"Bob", "Rober", "Roberta Flack", ""} {
				cases = append(cases, tcase{cn, `[]`, []flows.Modifier{modifiers.NewName(mn)}})
			}
		}
	case strings.Contains(in.Obligation, "URNsModifier") || strings.Contains(in.Obligation, "urns_"):
		a, b, c := urns.URN("tel:+12065551212"), urns.URN("tel:+12065551313"), urns.URN("twitter:bob")
		for _, existing := range []string{`[]`, `["tel:+12065551212"]`, `["tel:+12065551212", "twitter:bob"]`} {
			for _, list := range [][]urns.URN{{a}, {b}, {a, b}, {b, a}, {a, c}, {c, b, a}, {}} {
				for _, mod := range []modifiers.URNsModification{modifiers.URNsAppend, modifiers.URNsRemove, modifiers.URNsSet} {
					cases = append(cases, tcase{"Bob", existing, []flows.Modifier{modifiers.NewURNs(list, mod)}})
				}
			}
		}
	case strings.Contains(in.Obligation, "ChannelModifier") || strings.Contains(in.Obligation, "UpdatePreferredChannel") || strings.Contains(in.Obligation, "URNList"):
		android, twitter := sa.Channels().Get("57f1078f-88aa-46f4-a59a-948a5739c03d"), sa.Channels().Get("8e21f093-99aa-413b-b55b-758b54308fcb")
		for _, existing := range []string{`[]`, `["tel:+12065551212"]`, `["tel:+12065551212?channel=57f1078f-88aa-46f4-a59a-948a5739c03d"]`,
			`["twitterid:54784326227#nyaruka", "tel:+12065551212?channel=0a5c1d66-2a0c-4b5c-9d5c-0e4f6c7a9b11"]`,
			`["twitterid:54784326227#nyaruka", "tel:+12065551212?channel=3a05eaf5-cb1b-4246-bef1-f277419c83a7"]`,
			`["tel:+12065551212?foo=bar", "twitterid:54784326227"]`} {
			for _, ch := range []*flows.Channel{nil, android, twitter} {
				cases = append(cases, tcase{"Bob", existing, []flows.Modifier{modifiers.NewChannel(ch)}})
			}
		}
	case strings.Contains(in.Obligation, "LanguageModifier"):
		cases = append(cases, tcase{"Bob", `[]`, []flows.Modifier{modifiers.NewLanguage("fra")}}, tcase{"Bob", `[]`, []flows.Modifier{modifiers.NewLanguage("")}})
	case strings.Contains(in.Obligation, "StatusModifier"):
		cases = append(cases, tcase{"Bob", `[]`, []flows.Modifier{modifiers.NewStatus(flows.ContactStatusBlocked)}}, tcase{"Bob", `[]`, []flows.Modifier{modifiers.NewStatus(flows.ContactStatusActive)}})
	default:
		fmt.Println("REPLAY: not-reproduced (no cases for this obligation)")
		return
	}
	for _, tc := range cases {
		contact, err := flows.ReadContact(sa, []byte(fmt.Sprintf(contactJSON, tc.name, tc.urns)), assets.IgnoreMissing)
		if err != nil {
			t.Fatal(err)
		}
		for _, mod := range tc.mods {
			for round := 1; round <= 2; round++ {
				before := gocvContactJSON(contact)
				log := test.NewEventLog()
				result := mod.Apply(eng, env, sa, contact, log.Log)
				after := gocvContactJSON(contact)
				changed := before != after
				evs := gocvChangeEvents(log)
				mj, _ := json.Marshal(mod)
				if result != changed || result != (len(evs) > 0) {
					fmt.Printf("REPLAY: reproduced modifier %s on contact name=%q urns=%s (application %d): result=%v contact-changed=%v change-events=%v\n", mj, tc.name, tc.urns, round, result, changed, evs)
					return
				}
				if round == 2 && result {
					fmt.Printf("REPLAY: reproduced modifier %s applied twice reports modified the second time\n", mj)
					return
				}
			}
		}
	}
	fmt.Println("REPLAY: not-reproduced")
}
