package engine_test

// Replay adapter for C05 (injected with `go test -overlay`): drives the real engine over a family of
// engine option values and texts (plain, templated, multi-byte) and looks for a panic out of NewSession,
// an over-long message text / quick reply / result value, or a sprint with more steps than configured.

import (
	"fmt"
	"os"
	"strings"
	"testing"
	"unicode/utf8"

	"github.com/nyaruka/goflow/assets"
	"github.com/nyaruka/goflow/envs"
	"github.com/nyaruka/goflow/flows"
	"github.com/nyaruka/goflow/flows/engine"
	"github.com/nyaruka/goflow/flows/events"
	"github.com/nyaruka/goflow/flows/triggers"
	"github.com/nyaruka/goflow/test"
)

func gocvC05Assets(text, value string) string {
	return fmt.Sprintf(`{
	"flows": [
		{
			"uuid": "1b462ce8-983a-4393-b133-e15a0efdb70c", "name": "Limits", "spec_version": "13.0", "language": "eng", "type": "messaging",
			"nodes": [
				{
					"uuid": "46d51f50-58de-49da-8d13-dadbf322685d",
					"actions": [
						{"type": "send_msg", "uuid": "ad154980-7bf7-4ab8-8728-545fd6378912", "text": %q, "quick_replies": [%q]},
						{"type": "set_run_result", "uuid": "5ad99f45-3a05-4be7-8d6a-0e0c9d2b1e3f", "name": "Res", "value": %q, "category": ""}
					],
					"exits": [{"uuid": "37d8813f-1402-4ad2-9cc2-e9054a96525b", "destination_uuid": "46d51f50-58de-49da-8d13-dadbf322685d"}]
				}
			]
		}
	]
}`, text, text, value)
}

func gocvC05Run(maxTemplate, maxResult, maxSteps int, text, value string) (problem string) {
	defer func() {
		if r := recover(); r != nil {
			problem = fmt.Sprintf("real code panicked: %v", r)
		}
	}()
	sa, err := test.CreateSessionAssets([]byte(gocvC05Assets(text, value)), "")
	if err != nil {
		return ""
	}
	env := envs.NewBuilder().Build()
	contact := flows.NewEmptyContact(sa, "Bob", "eng", nil)
	eng := engine.NewBuilder().WithMaxTemplateChars(maxTemplate).WithMaxResultChars(maxResult).WithMaxStepsPerSprint(maxSteps).Build()
	trigger := triggers.NewBuilder(env, assets.NewFlowReference("1b462ce8-983a-4393-b133-e15a0efdb70c", "Limits"), contact).Manual().Build()
	session, sprint, err := eng.NewSession(sa, trigger)
	if err != nil {
		return ""
	}
	steps := 0
	for _, r := range session.Runs() {
		steps += len(r.Path())
	}
	if maxSteps >= 0 && steps > maxSteps {
		return fmt.Sprintf("sprint visited %d steps with MaxStepsPerSprint=%d", steps, maxSteps)
	}
	for _, e := range sprint.Events() {
		switch ev := e.(type) {
		case *events.MsgCreatedEvent:
			if n := utf8.RuneCountInString(ev.Msg.Text()); n > maxTemplate {
				return fmt.Sprintf("message text has %d characters with MaxTemplateChars=%d", n, maxTemplate)
			}
			for _, qr := range ev.Msg.QuickReplies() {
				if n := utf8.RuneCountInString(qr); n > flows.MaxQuickReplyLength {
					return fmt.Sprintf("quick reply has %d characters (limit %d)", n, flows.MaxQuickReplyLength)
				}
			}
		case *events.RunResultChangedEvent:
			if n := utf8.RuneCountInString(ev.Value); n > maxResult {
				return fmt.Sprintf("result value has %d characters with MaxResultChars=%d", n, maxResult)
			}
		}
	}
	return ""
}

func TestGocvReplayLimits(t *testing.T) {
	if _, err := os.ReadFile(os.Getenv("GOCV_REPLAY")); err != nil {
		t.Skip("no replay file")
	}
	obl := os.Getenv("GOCV_REPLAY_OBLIGATION")
	texts := []string{"hi", strings.Repeat("x", 30), strings.Repeat("é世", 40), "@contact.name " + strings.Repeat("y", 100), "a@@b " + strings.Repeat("z", 90)}
	for _, mt := range []int{2, 1, 0, -1, 3, 5, 20, 10000} {
		for _, mr := range []int{-1, 0, 1, 5, 640} {
			if strings.Contains(obl, "TruncateEllipsis") && mr < 0 {
				continue
			}
			if strings.Contains(obl, "SaveResult") && mt < 3 {
				continue
			}
			for _, ms := range []int{3, 100} {
				for _, text := range texts {
					if p := gocvC05Run(mt, mr, ms, text, text); p != "" {
						fmt.Printf("REPLAY: reproduced %s (engine options MaxTemplateChars=%d MaxResultChars=%d MaxStepsPerSprint=%d, text/value of %d characters %q)\n", p, mt, mr, ms, utf8.RuneCountInString(text), text[:min(len(text), 20)])
						return
					}
				}
			}
		}
	}
	fmt.Println("REPLAY: not-reproduced")
}
