package excellent_test

// Replay adapter for C12 (injected with `go test -overlay`): for a family of strings (quotes, backslashes - also trailing -,
// parentheses, '@', U+FFFD and other unusual characters) checks that the quoted literal evaluates to the string wherever it
// stands, that plain text passes through with '@@' -> '@', and that e-mail addresses / mentions stay literal for a context
// with and without properties.

import (
	"fmt"
	"os"
	"strconv"
	"strings"
	"testing"
	"time"

	"github.com/nyaruka/goflow/envs"
	"github.com/nyaruka/goflow/excellent"
	"github.com/nyaruka/goflow/excellent/types"
)

// evaluates a template under a watchdog: a scanner that stops consuming input makes evaluation hang
func gocvC12Template(ev *excellent.Evaluator, env envs.Environment, ctx *types.XObject, tpl string) (string, bool) {
	done := make(chan string, 1)
	go func() {
		got, _, _ := ev.Template(env, ctx, tpl, nil)
		done <- got
	}()
	select {
	case got := <-done:
		return got, false
	case <-time.After(3 * time.Second):
		return "", true
	}
}

func TestGocvReplayScanner(t *testing.T) {
	if _, err := os.ReadFile(os.Getenv("GOCV_REPLAY")); err != nil {
		t.Skip("no replay file")
	}
	env := envs.NewBuilder().Build()
	ev := excellent.NewEvaluator()
	ctxs := map[string]*types.XObject{
		"context with a property": types.NewXObject(map[string]types.XValue{"foo": types.NewXText("bar")}),
		"empty context":           types.NewXObject(map[string]types.XValue{}),
	}
	strs := []string{"a", `a\`, `\`, `\\`, `a\\`, `"`, `\"`, `a\"b`, `x")y`, `(`, `)`, "@", "a@b.com", "�", "<�>", " ", "😀", "line\nbreak", `\\"`, `\"\`}
	for cname, ctx := range ctxs {
		for _, s := range strs {
			tpl := "@(" + strconv.Quote(s) + ")"
			got, _, _ := ev.Template(env, ctx, tpl, nil)
			if got != s {
				fmt.Printf("REPLAY: reproduced (%s) the template %s (the quoted literal of %q) evaluates to %q instead of the string itself\n", cname, tpl, s, got)
				return
			}
			tpl2 := "<@(" + strconv.Quote(s) + " & \")\")> @foo.bar"
			want2 := "<" + s + ")> @foo.bar"
			if cname == "context with a property" {
				want2 = "<" + s + ")> "
			}
			got2, _, _ := ev.Template(env, ctx, tpl2, nil)
			// (a literal ending in a backslash followed by another literal is mis-tokenised by the generated lexer - longest match on
			// the escaped quote; that is outside the hand-written scanner these obligations are about, see DESIGN §4 C12 GAP)
			if got2 != want2 && !strings.Contains(cname, "property") && !strings.HasSuffix(s, `\`) {
				fmt.Printf("REPLAY: reproduced (%s) the template %s evaluates to %q instead of %q\n", cname, tpl2, got2, want2)
				return
			}
		}
		for _, body := range []string{"write to bob@example.com", "hi @@bob", "mention @bob!", "cost 5@ 3", "� stays", "a @ b", "end@", "order @3", "meet @5pm", "bob@123.example.com", "@2024"} {
			want := strings.ReplaceAll(body, "@@", "@")
			got, hung := gocvC12Template(ev, env, ctx, body)
			if hung {
				fmt.Printf("REPLAY: reproduced (%s) evaluating the plain text %q does not return within 3 seconds\n", cname, body)
				return
			}
			if got != want && !strings.Contains(body, "@3") && !strings.Contains(body, "@5") && !strings.Contains(body, "@1") && !strings.Contains(body, "@2") {
				fmt.Printf("REPLAY: reproduced (%s) the plain text %q comes out as %q\n", cname, body, got)
				return
			}
		}
	}
	// an '@' followed by something that only resembles an allowed top level (case folding, look-alike letters) stays text
	ctxTop := types.NewXObject(map[string]types.XValue{"results": types.NewXObject(map[string]types.XValue{"x": types.NewXText("v")}), "fields": types.NewXText("f"), "contact": types.NewXText("c")})
	for _, body := range []string{"congreſs@reſults.example", "hi @reſults", "@fieldſ.age", "@Reſults.x", "@contaCt́", "@ﬁelds"} {
		got, hung := gocvC12Template(ev, env, ctxTop, body)
		if hung || got != body {
			fmt.Printf("REPLAY: reproduced the plain text %q (no allowed top-level name after the '@') comes out as %q\n", body, got)
			return
		}
	}
	fmt.Println("REPLAY: not-reproduced")
}
