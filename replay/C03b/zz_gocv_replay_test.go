package flows_test

// Replay adapter for C03 obligation (*Value).Equals/post[facet_by_facet] (injected with `go test -overlay`).
// Evaluates the clause on real values over the region the obligation names: datetimes that are the same instant in
// different zones / different instants, numbers equal with different scale, nil facets.

import (
	"fmt"
	"os"
	"testing"
	"time"

	"github.com/nyaruka/goflow/excellent/types"
	"github.com/nyaruka/goflow/flows"
	"github.com/shopspring/decimal"
)

func TestGocvReplayValueEquals(t *testing.T) {
	if _, err := os.ReadFile(os.Getenv("GOCV_REPLAY")); err != nil {
		t.Skip("no replay file")
	}
	utc := time.Date(2024, 3, 1, 12, 0, 0, 0, time.UTC)
	kgl := utc.In(time.FixedZone("CAT", 2*3600))
	later := utc.Add(time.Second)
	dts := []*types.XDateTime{nil}
	for _, d := range []time.Time{utc, kgl, later} {
		dts = append(dts, types.NewXDateTime(d))
	}
	nums := []*types.XNumber{nil}
	for _, s := range []string{"1", "1.00", "2"} {
		nums = append(nums, types.NewXNumber(decimal.RequireFromString(s)))
	}
	sameDT := func(a, b *types.XDateTime) bool {
		return (a == nil && b == nil) || (a != nil && b != nil && a.Native().Equal(b.Native()))
	}
	sameNum := func(a, b *types.XNumber) bool {
		return (a == nil && b == nil) || (a != nil && b != nil && a.Native().Cmp(b.Native()) == 0)
	}
	for _, ta := range []string{"x", "y"} {
		for _, tb := range []string{"x", "y"} {
			for _, da := range dts {
				for _, db := range dts {
					for _, na := range nums {
						for _, nb := range nums {
							a := flows.NewValue(types.NewXText(ta), da, na, "", "", "")
							b := flows.NewValue(types.NewXText(tb), db, nb, "", "", "")
							want := ta == tb && sameDT(da, db) && sameNum(na, nb)
							if got := a.Equals(b); got != want {
								fmt.Printf("REPLAY: reproduced Value.Equals text=%q/%q datetime=%v/%v number=%v/%v returns %v, facet-by-facet comparison is %v\n", ta, tb, da, db, na, nb, got, want)
								return
							}
						}
					}
				}
			}
		}
	}
	var nilV *flows.Value
	v := flows.NewValue(types.NewXText("x"), nil, nil, "", "", "")
	if !nilV.Equals(nil) || nilV.Equals(v) || v.Equals(nil) {
		fmt.Println("REPLAY: reproduced Value.Equals nil handling")
		return
	}
	fmt.Println("REPLAY: not-reproduced")
}
