package operators_test

// Replay adapter for C04 obligations on the operators (injected with `go test -overlay`): evaluates small expressions
// over boundary operands with a deadline and reports a panic or an evaluation that does not return.

import (
	"fmt"
	"os"
	"testing"
	"time"

	"github.com/nyaruka/goflow/envs"
	"github.com/nyaruka/goflow/excellent"
	"github.com/nyaruka/goflow/excellent/types"
)

func TestGocvReplayOperators(t *testing.T) {
	if _, err := os.ReadFile(os.Getenv("GOCV_REPLAY")); err != nil {
		t.Skip("no replay file")
	}
	env := envs.NewBuilder().Build()
	ev := excellent.NewEvaluator()
	ctx := types.NewXObject(map[string]types.XValue{})
	operands := []string{"0", "1", "-1", "1.5", "2", "100000", "-100000", "99999999", "-99999999", "0.000001"}
	for _, op := range []string{"^", "/", "*", "+", "-"} {
		for _, a := range operands {
			for _, b := range operands {
				tpl := fmt.Sprintf("@(%s %s %s)", a, op, b)
				done := make(chan string, 1)
				go func() {
					defer func() {
						if r := recover(); r != nil {
							done <- fmt.Sprintf("panics: %v", r)
						}
					}()
					got, _, _ := ev.Template(env, ctx, tpl, nil)
					if len(got) > 40 {
						got = got[:40] + "..."
					}
					done <- "ok " + got
				}()
				select {
				case r := <-done:
					if len(r) > 2 && r[:2] != "ok" {
						fmt.Printf("REPLAY: reproduced the template %s %s\n", tpl, r)
						return
					}
				case <-time.After(3 * time.Second):
					fmt.Printf("REPLAY: reproduced the %d character template %s does not return within 3 seconds\n", len(tpl), tpl)
					return
				}
			}
		}
	}
	fmt.Println("REPLAY: not-reproduced")
}
