package engine_test

// Replay adapter for C10 obligations (injected with `go test -overlay`). Region driver over the property's own
// observables: (1) a resume that is rejected with an engine error (session not waiting / rejected by the wait) leaves
// the session JSON byte-identical and logs nothing, whatever the session has been through before (no input yet, an
// input from an earlier reply, completed session); (2) reaching the resume limit fails the session with a failure
// event and no Go error - for the session kept in memory and for one marshalled and re-read before every resume.

import (
	"bytes"
	"fmt"
	"os"
	"testing"

	"github.com/nyaruka/gocommon/jsonx"
	"github.com/nyaruka/gocommon/uuids"
	"github.com/nyaruka/goflow/assets"
	"github.com/nyaruka/goflow/flows"
	"github.com/nyaruka/goflow/flows/engine"
	"github.com/nyaruka/goflow/flows/events"
	"github.com/nyaruka/goflow/flows/resumes"
	"github.com/nyaruka/goflow/test"
)

func gocvC10Msg(text string) flows.Resume {
	return resumes.NewMsg(nil, nil, flows.NewMsgIn(flows.MsgUUID(uuids.NewV4()), "tel:+12065551212", nil, text, nil))
}

func gocvC10Rejected(what string, session flows.Session, resume flows.Resume) bool {
	before := jsonx.MustMarshal(session)
	sprint, err := session.Resume(resume)
	if err == nil {
		return false // accepted: not this clause
	}
	if _, ok := err.(*engine.Error); !ok {
		fmt.Printf("REPLAY: reproduced %s: resume returned a non-engine error %v\n", what, err)
		return true
	}
	after := jsonx.MustMarshal(session)
	if !bytes.Equal(before, after) {
		k := 0
		for k < len(before) && k < len(after) && before[k] == after[k] {
			k++
		}
		fmt.Printf("REPLAY: reproduced %s: resume rejected with %q changed the session JSON at byte %d: before ...%s... after ...%s...\n", what, err.Error(), k, before[max(0, k-60):min(len(before), k+80)], after[max(0, k-60):min(len(after), k+80)])
		return true
	}
	if sprint != nil && len(sprint.Events()) > 0 {
		fmt.Printf("REPLAY: reproduced %s: rejected resume logged %d events\n", what, len(sprint.Events()))
		return true
	}
	return false
}

func TestGocvReplayResumes(t *testing.T) {
	if _, err := os.ReadFile(os.Getenv("GOCV_REPLAY")); err != nil {
		t.Skip("no replay file")
	}
	twoQ := func() (flows.SessionAssets, flows.Session) {
		sa, s, _ := test.NewSessionBuilder().WithAssetsPath("../../test/testdata/runner/two_questions.json").WithFlow("615b8a0f-588c-4d20-a05f-363b0b4ce6f4").MustBuild()
		return sa, s
	}
	dial := func() flows.Resume { return resumes.NewDial(nil, nil, flows.NewDial(flows.DialStatusAnswered, 10)) }

	// (1) rejected resumes
	_, s := twoQ()
	if gocvC10Rejected("waiting session without an input, dial resume on a msg wait", s, dial()) {
		return
	}
	if _, err := s.Resume(gocvC10Msg("Teal")); err != nil || s.Status() != flows.SessionStatusWaiting {
		t.Fatalf("scenario: %v", err)
	}
	if gocvC10Rejected("waiting session that has received a reply, dial resume on a msg wait", s, dial()) {
		return
	}
	_, s2, _ := test.NewSessionBuilder().MustBuild()
	if _, err := s2.Resume(gocvC10Msg("I like blue")); err != nil {
		t.Fatalf("scenario: %v", err)
	}
	if s2.Status() == flows.SessionStatusWaiting {
		t.Fatalf("scenario: default flow still waiting")
	}
	if gocvC10Rejected("completed session that has received a reply, msg resume", s2, gocvC10Msg("hello?")) {
		return
	}

	// (2) the resume limit, live and restored
	for _, restore := range []bool{false, true} {
		eng := engine.NewBuilder().WithMaxResumesPerSession(3).Build()
		sa, s0 := twoQ()
		data := jsonx.MustMarshal(s0)
		session, err := eng.ReadSession(sa, data, assets.PanicOnMissing)
		if err != nil {
			t.Fatal(err)
		}
		failed := false
		for i := 0; i < 8 && !failed; i++ {
			if restore {
				session, err = eng.ReadSession(sa, jsonx.MustMarshal(session), assets.PanicOnMissing)
				if err != nil {
					t.Fatal(err)
				}
			}
			if session.Status() != flows.SessionStatusWaiting {
				break
			}
			sprint, err := session.Resume(gocvC10Msg("Teal"))
			if err != nil {
				fmt.Printf("REPLAY: reproduced resume %d (limit 3, restore=%v) returned %v instead of failing the session\n", i+1, restore, err)
				return
			}
			if session.Status() == flows.SessionStatusFailed {
				failed = true
				hasFailure := false
				for _, e := range sprint.Events() {
					if e.Type() == events.TypeFailure {
						hasFailure = true
					}
				}
				for _, r := range session.Runs() {
					if r.Status() == flows.RunStatusActive || r.Status() == flows.RunStatusWaiting {
						fmt.Printf("REPLAY: reproduced resume limit: session failed but run %s is %s\n", r.UUID(), r.Status())
						return
					}
				}
				if !hasFailure {
					fmt.Printf("REPLAY: reproduced resume limit: session failed without a failure event (restore=%v)\n", restore)
					return
				}
			}
		}
		if !failed && session.Status() == flows.SessionStatusWaiting {
			fmt.Printf("REPLAY: reproduced resume limit 3 never reached after 8 resumes of a session %s: still %s\n", map[bool]string{true: "marshalled and re-read before every resume", false: "kept in memory"}[restore], session.Status())
			return
		}
	}
	fmt.Println("REPLAY: not-reproduced")
}
