package engine_test

// Replay adapter for C06 (injected with `go test -overlay`): drives the real engine over a family of
// sessions (trigger kind x starting contact x resume kind) with query based groups on last_seen_on,
// name, language and status, and compares the contact's membership of every query based group with
// Group.CheckQueryBasedMembership whenever the engine hands the session back.

import (
	"fmt"
	"os"
	"testing"

	"github.com/nyaruka/gocommon/urns"
	"github.com/nyaruka/goflow/assets"
	"github.com/nyaruka/goflow/envs"
	"github.com/nyaruka/goflow/flows"
	"github.com/nyaruka/goflow/flows/engine"
	"github.com/nyaruka/goflow/flows/resumes"
	"github.com/nyaruka/goflow/flows/triggers"
	"github.com/nyaruka/goflow/test"
)

const gocvC06Assets = `{
	"flows": [
		{
			"uuid": "1b462ce8-983a-4393-b133-e15a0efdb70c", "name": "Wait", "spec_version": "13.0", "language": "eng", "type": "messaging",
			"nodes": [
				{
					"uuid": "46d51f50-58de-49da-8d13-dadbf322685d",
					"router": {
						"type": "switch", "wait": {"type": "msg"},
						"categories": [{"uuid": "8720f157-ca1c-432f-9c0b-2014ddc77094", "name": "All Responses", "exit_uuid": "37d8813f-1402-4ad2-9cc2-e9054a96525b"}],
						"default_category_uuid": "8720f157-ca1c-432f-9c0b-2014ddc77094", "operand": "@input.text", "cases": []
					},
					"exits": [{"uuid": "37d8813f-1402-4ad2-9cc2-e9054a96525b"}]
				}
			]
		}
	],
	"groups": [
		{"uuid": "d7ff4872-9238-452f-9d38-2f558fea89e0", "name": "Seen", "query": "last_seen_on != \"\""},
		{"uuid": "047de1c9-9189-4f4c-aa04-bff0a4c2efb6", "name": "Never Seen", "query": "last_seen_on = \"\""},
		{"uuid": "5e9d8fab-5e7e-4f51-b533-261af5dea70d", "name": "Bobs", "query": "name = \"Bob\""},
		{"uuid": "4bb13eec-5344-4ab8-83b7-b5791c669c50", "name": "Customers"}
	]
}`

func gocvC06Mismatch(s flows.Session) string {
	for _, g := range s.Assets().Groups().All() {
		if !g.UsesQuery() {
			continue
		}
		isMember := s.Contact().Groups().FindByUUID(g.UUID()) != nil
		matches := g.CheckQueryBasedMembership(s.Environment(), s.Contact())
		if isMember != matches {
			return fmt.Sprintf("group %q (query %s): member=%v but query matches=%v", g.Name(), g.Query(), isMember, matches)
		}
	}
	return ""
}

func TestGocvReplayGroupsFresh(t *testing.T) {
	if _, err := os.ReadFile(os.Getenv("GOCV_REPLAY")); err != nil {
		t.Skip("no replay file")
	}
	sa, err := test.CreateSessionAssets([]byte(gocvC06Assets), "")
	if err != nil {
		t.Fatal(err)
	}
	env := envs.NewBuilder().Build()
	eng := engine.NewBuilder().Build()
	flowRef := assets.NewFlowReference("1b462ce8-983a-4393-b133-e15a0efdb70c", "Wait")
	contacts := map[string]string{
		"never seen, no stored groups":      `{"uuid": "6d116680-eab9-460a-9c6e-1f05d3c5b5d6", "name": "Bob", "status": "active", "created_on": "2018-06-20T11:40:30Z", "urns": ["tel:+12065551212"]}`,
		"stored membership already wrong":   `{"uuid": "6d116680-eab9-460a-9c6e-1f05d3c5b5d6", "name": "Jim", "status": "active", "created_on": "2018-06-20T11:40:30Z", "urns": ["tel:+12065551212"], "groups": [{"uuid": "5e9d8fab-5e7e-4f51-b533-261af5dea70d", "name": "Bobs"}]}`,
		"blocked with stale query groups":   `{"uuid": "6d116680-eab9-460a-9c6e-1f05d3c5b5d6", "name": "Bob", "status": "blocked", "created_on": "2018-06-20T11:40:30Z", "urns": ["tel:+12065551212"], "groups": [{"uuid": "5e9d8fab-5e7e-4f51-b533-261af5dea70d", "name": "Bobs"}]}`,
	}
	msg := flows.NewMsgIn("2d611e17-fb22-457f-b802-b8f7ec5cda5b", urns.URN("tel:+12065551212"), nil, "hi there", nil)
	for cname, cjson := range contacts {
		for _, trigKind := range []string{"manual", "msg"} {
			for _, resKind := range []string{"msg without refresh", "msg with refreshed contact"} {
				contact, err := flows.ReadContact(sa, []byte(cjson), assets.IgnoreMissing)
				if err != nil {
					t.Fatal(err)
				}
				var trigger flows.Trigger
				if trigKind == "manual" {
					trigger = triggers.NewBuilder(env, flowRef, contact).Manual().Build()
				} else {
					trigger = triggers.NewBuilder(env, flowRef, contact).Msg(msg).Build()
				}
				session, _, err := eng.NewSession(sa, trigger)
				if err != nil {
					continue
				}
				if m := gocvC06Mismatch(session); m != "" {
					fmt.Printf("REPLAY: reproduced after NewSession with a %s trigger and contact (%s): %s\n", trigKind, cname, m)
					return
				}
				if session.Status() != flows.SessionStatusWaiting {
					continue
				}
				var res flows.Resume
				if resKind == "msg without refresh" {
					res = resumes.NewMsg(nil, nil, msg)
				} else {
					c2, _ := flows.ReadContact(sa, []byte(cjson), assets.IgnoreMissing)
					res = resumes.NewMsg(env, c2, msg)
				}
				if _, err := session.Resume(res); err != nil {
					continue
				}
				if m := gocvC06Mismatch(session); m != "" {
					fmt.Printf("REPLAY: reproduced after Resume (%s) of a session started by a %s trigger with contact (%s): %s\n", resKind, trigKind, cname, m)
					return
				}
			}
		}
	}
	fmt.Println("REPLAY: not-reproduced")
}
