package engine_test

// Replay adapter for C03 obligations on (*session).SetInput (injected with `go test -overlay`).
// last-seen follows the received message: after SetInput(input) the contact's last-seen is the input's creation
// time, whatever it was before (earlier, later, unset).

import (
	"fmt"
	"os"
	"testing"
	"time"

	"github.com/nyaruka/gocommon/urns"
	"github.com/nyaruka/goflow/flows"
	"github.com/nyaruka/goflow/flows/inputs"
	"github.com/nyaruka/goflow/test"
)

func TestGocvReplaySetInput(t *testing.T) {
	if _, err := os.ReadFile(os.Getenv("GOCV_REPLAY")); err != nil {
		t.Skip("no replay file")
	}
	_, session, _, err := test.NewSessionBuilder().Build()
	if err != nil {
		t.Fatal(err)
	}
	created := time.Date(2024, 3, 1, 12, 0, 0, 0, time.UTC)
	for _, prior := range []*time.Time{nil, ptrTime(created.Add(-time.Hour)), ptrTime(created.Add(time.Hour)), ptrTime(created)} {
		if prior != nil {
			session.Contact().SetLastSeenOn(*prior)
		}
		msg := flows.NewMsgIn("4f4d5c8c-3d2b-4d3a-9d0c-2b0a4d7d9f10", urns.URN("tel:+12065551212"), nil, "hi", nil)
		in := inputs.NewMsg(session, msg, created)
		session.SetInput(in)
		if session.Input() != flows.Input(in) {
			fmt.Println("REPLAY: reproduced SetInput did not set the session input")
			return
		}
		got := session.Contact().LastSeenOn()
		if got == nil || !got.Equal(created) {
			fmt.Printf("REPLAY: reproduced SetInput(input created %v) with prior last-seen %v leaves last-seen %v\n", created, prior, got)
			return
		}
		before := *session.Contact().LastSeenOn()
		session.SetInput(nil)
		if a := session.Contact().LastSeenOn(); a == nil || !a.Equal(before) {
			fmt.Println("REPLAY: reproduced SetInput(nil) changed last-seen")
			return
		}
	}
	fmt.Println("REPLAY: not-reproduced")
}

func ptrTime(t time.Time) *time.Time { return &t }
