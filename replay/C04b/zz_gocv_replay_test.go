package types_test

// Replay adapter for C04 obligations on excellent/types values (injected with `go test -overlay`): formats, renders and
// marshals arrays and objects over a small family of element values (empty, multi-line, nil, nested) and reports a panic.

import (
	"fmt"
	"os"
	"testing"

	"github.com/nyaruka/goflow/envs"
	"github.com/nyaruka/goflow/excellent/types"
)

func TestGocvReplayValues(t *testing.T) {
	if _, err := os.ReadFile(os.Getenv("GOCV_REPLAY")); err != nil {
		t.Skip("no replay file")
	}
	env := envs.NewBuilder().Build()
	elems := []types.XValue{types.NewXText(""), types.NewXText("a"), types.NewXText("a\nb"), types.NewXText("\n"), nil, types.NewXArray(), types.NewXArray(types.NewXText(""), types.NewXText("x\ny"))}
	for _, a := range elems {
		for _, b := range elems {
			arr := types.NewXArray(a, b)
			what := fmt.Sprintf("array(%s, %s)", types.Describe(a)+" "+fmt.Sprintf("%q", fmt.Sprint(a)), types.Describe(b)+" "+fmt.Sprintf("%q", fmt.Sprint(b)))
			for name, f := range map[string]func(){
				"format": func() { arr.Format(env) },
				"render": func() { arr.Render() },
				"json":   func() { arr.MarshalJSON() },
			} {
				if p := func() (p string) {
					defer func() {
						if r := recover(); r != nil {
							p = fmt.Sprint(r)
						}
					}()
					f()
					return ""
				}(); p != "" {
					fmt.Printf("REPLAY: reproduced %s of %s panics: %s\n", name, what, p)
					return
				}
			}
		}
	}
	fmt.Println("REPLAY: not-reproduced")
}
