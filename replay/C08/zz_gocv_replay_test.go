package definition_test

// Replay adapter for C08 (injected with `go test -overlay`): for the map-range site named by the failed
// obligation, repeats a scenario that sends the loop's product to an output (inspection JSON, expression
// result) and compares the bytes across repetitions; a difference is the failing "input" (a map with more
// than one entry at that site).

import (
	"encoding/json"
	"fmt"
	"os"
	"strings"
	"testing"

	"github.com/nyaruka/gocommon/jsonx"
	"github.com/nyaruka/goflow/assets"
	"github.com/nyaruka/goflow/assets/static"
	"github.com/nyaruka/goflow/envs"
	"github.com/nyaruka/goflow/excellent/types"
	"github.com/nyaruka/goflow/flows"
	"github.com/nyaruka/goflow/flows/definition"
	"github.com/nyaruka/goflow/flows/events"
	"github.com/nyaruka/goflow/flows/triggers"
	"github.com/nyaruka/goflow/test"
)

const gocvC08FlowAll = `{
	"uuid": "8ca44c09-791d-453a-9799-a70dd3303306", "name": "Determinism", "spec_version": "13.0", "language": "eng", "type": "messaging",
	"localization": {
		"fra": {"ad154980-7bf7-4ab8-8728-545fd6378912": {"text": ["Salut @fields.age"]}},
		"spa": {"ad154980-7bf7-4ab8-8728-545fd6378912": {"text": ["Hola @fields.gender"]}},
		"kin": {"ad154980-7bf7-4ab8-8728-545fd6378912": {"text": ["Muraho @fields.state"]}},
		"por": {"ad154980-7bf7-4ab8-8728-545fd6378912": {"text": ["Ola @fields.district"]}}
	},
	"nodes": [
		{
			"uuid": "46d51f50-58de-49da-8d13-dadbf322685d",
			"actions": [
				{"type": "send_msg", "uuid": "ad154980-7bf7-4ab8-8728-545fd6378912", "text": "Hi @fields.missing_one and @(legacy_extra.foo)"},
				{"type": "call_webhook", "uuid": "5ad99f45-3a05-4be7-8d6a-0e0c9d2b1e3f", "method": "GET", "url": "http://example.com/",
				 "headers": {"A": "@fields.h1", "B": "@fields.h2", "C": "@fields.h3", "D": "@fields.h4"}, "result_name": "Call"},
				{"type": "add_contact_groups", "uuid": "0d3a5d2f-9a0b-4b6e-8f5e-6d7b0c2d9a11", "groups": [{"uuid": "7c4b7d0c-5f8e-4a43-9d65-1c2b3f4a5e6d", "name": "Missing Group"}]}
			],
			"router": {
				"type": "switch", "operand": "@input.text", "default_category_uuid": "8720f157-ca1c-432f-9c0b-2014ddc77094",
				"categories": [{"uuid": "8720f157-ca1c-432f-9c0b-2014ddc77094", "name": "Other", "exit_uuid": "37d8813f-1402-4ad2-9cc2-e9054a96525b"}],
				"cases": [{"uuid": "5d6abc80-39e7-4620-9988-a2447bffe526", "type": "has_pattern", "arguments": ["[["], "category_uuid": "8720f157-ca1c-432f-9c0b-2014ddc77094"}]
			},
			"exits": [{"uuid": "37d8813f-1402-4ad2-9cc2-e9054a96525b"}]
		}
	]
}`

// one flow per site, so that a difference is attributable to that site only
const gocvC08FlowLanguages = `{
	"uuid": "8ca44c09-791d-453a-9799-a70dd3303306", "name": "Determinism", "spec_version": "13.0", "language": "eng", "type": "messaging",
	"localization": {
		"fra": {"ad154980-7bf7-4ab8-8728-545fd6378912": {"text": ["Salut @fields.age"]}},
		"spa": {"ad154980-7bf7-4ab8-8728-545fd6378912": {"text": ["Hola @fields.gender"]}},
		"kin": {"ad154980-7bf7-4ab8-8728-545fd6378912": {"text": ["Muraho @fields.state"]}},
		"por": {"ad154980-7bf7-4ab8-8728-545fd6378912": {"text": ["Ola @fields.district"]}}
	},
	"nodes": [{"uuid": "46d51f50-58de-49da-8d13-dadbf322685d", "actions": [{"type": "send_msg", "uuid": "ad154980-7bf7-4ab8-8728-545fd6378912", "text": "Hi"}], "exits": [{"uuid": "37d8813f-1402-4ad2-9cc2-e9054a96525b"}]}]
}`

const gocvC08FlowHeaders = `{
	"uuid": "8ca44c09-791d-453a-9799-a70dd3303306", "name": "Determinism", "spec_version": "13.0", "language": "eng", "type": "messaging",
	"nodes": [{"uuid": "46d51f50-58de-49da-8d13-dadbf322685d", "actions": [
		{"type": "call_webhook", "uuid": "5ad99f45-3a05-4be7-8d6a-0e0c9d2b1e3f", "method": "GET", "url": "http://example.com/",
		 "headers": {"A": "@fields.h1", "B": "@fields.h2", "C": "@fields.h3", "D": "@fields.h4"}, "result_name": "Call"}],
		"exits": [{"uuid": "37d8813f-1402-4ad2-9cc2-e9054a96525b"}]}]
}`

const gocvC08FlowIssues = `{
	"uuid": "8ca44c09-791d-453a-9799-a70dd3303306", "name": "Determinism", "spec_version": "13.0", "language": "eng", "type": "messaging",
	"nodes": [{"uuid": "46d51f50-58de-49da-8d13-dadbf322685d", "actions": [
			{"type": "send_msg", "uuid": "ad154980-7bf7-4ab8-8728-545fd6378912", "text": "Hi @(legacy_extra.foo)"},
			{"type": "add_contact_groups", "uuid": "0d3a5d2f-9a0b-4b6e-8f5e-6d7b0c2d9a11", "groups": [{"uuid": "7c4b7d0c-5f8e-4a43-9d65-1c2b3f4a5e6d", "name": "Missing Group"}]}
		],
		"router": {
			"type": "switch", "operand": "@input.text", "default_category_uuid": "8720f157-ca1c-432f-9c0b-2014ddc77094",
			"categories": [{"uuid": "8720f157-ca1c-432f-9c0b-2014ddc77094", "name": "Other", "exit_uuid": "37d8813f-1402-4ad2-9cc2-e9054a96525b"}],
			"cases": [{"uuid": "5d6abc80-39e7-4620-9988-a2447bffe526", "type": "has_pattern", "arguments": ["[["], "category_uuid": "8720f157-ca1c-432f-9c0b-2014ddc77094"}]
		},
		"exits": [{"uuid": "37d8813f-1402-4ad2-9cc2-e9054a96525b"}]}]
}`

func gocvC08Inspect(gocvC08Flow string) (string, error) {
	sa, err := test.CreateSessionAssets([]byte(`{"flows": [`+gocvC08Flow+`]}`), "")
	if err != nil {
		return "", err
	}
	flow, err := definition.ReadFlow([]byte(gocvC08Flow), nil)
	if err != nil {
		return "", err
	}
	info := flow.Inspect(sa)
	b, err := jsonx.Marshal(info)
	return string(b), err
}

func TestGocvReplayMapOrder(t *testing.T) {
	if _, err := os.ReadFile(os.Getenv("GOCV_REPLAY")); err != nil {
		t.Skip("no replay file")
	}
	obl := os.Getenv("GOCV_REPLAY_OBLIGATION")
	var scenario func() (string, error)
	what := ""
	switch {
	case strings.Contains(obl, "XObject).Get"):
		what = "XObject.Get(\"foo\") on the object read from {\"Foo\": 1, \"foo\": 2, \"FOO\": 3, \"fOo\": 4}"
		scenario = func() (string, error) {
			o, err := types.ReadXObject([]byte(`{"Foo": 1, "foo": 2, "FOO": 3, "fOo": 4}`))
			if err != nil {
				return "", err
			}
			v, _ := o.Get("foo")
			b, err := json.Marshal(v)
			return string(b), err
		}
	case strings.Contains(obl, "TemplateTranslation).Preview"):
		what = "TemplateTranslation.Preview of \"Hi {{1}}, who's a good {{2}}?\" with variables [\"{{2}}\", \"boy\"] and two image variables in one component"
		scenario = func() (string, error) {
			tplAsset := &static.Template{}
			jsonx.MustUnmarshal([]byte(`{"uuid": "4c01c732-e644-421c-af15-f5606c3e05f0", "name": "greeting", "translations": [{
				"channel": {"uuid": "79401ef2-8eb6-48f4-9f9d-0604530b1ac0", "name": "WhatsApp"}, "locale": "eng",
				"components": [{"name": "body", "type": "body/text", "content": "Hi {{1}}, who's a good {{2}}?", "variables": {"1": 0, "2": 1}}],
				"variables": [{"type": "text"}, {"type": "text"}]}]}`), tplAsset)
			trans := flows.NewTemplateTranslation(tplAsset.Translations()[0])
			c := trans.Preview([]*flows.TemplatingVariable{{Type: "text", Value: "{{2}}"}, {Type: "text", Value: "boy"}})
			b, err := jsonx.Marshal(c)
			return string(b), err
		}
	case strings.Contains(obl, "CallWebhookAction).call"):
		what = "events of a sprint whose call_webhook action has four headers with failing templates"
		scenario = func() (string, error) {
			flowJSON := `{"uuid": "8ca44c09-791d-453a-9799-a70dd3303306", "name": "Determinism", "spec_version": "13.0", "language": "eng", "type": "messaging",
				"nodes": [{"uuid": "46d51f50-58de-49da-8d13-dadbf322685d", "actions": [
				{"type": "call_webhook", "uuid": "5ad99f45-3a05-4be7-8d6a-0e0c9d2b1e3f", "method": "GET", "url": "http://127.0.0.1:9/",
				 "headers": {"A": "@(1 / 0)", "B": "@(\"x\" + 1)", "C": "@(foo(1))", "D": "@(1 +)"}, "result_name": "Call"}],
				"exits": [{"uuid": "37d8813f-1402-4ad2-9cc2-e9054a96525b"}]}]}`
			sa, err := test.CreateSessionAssets([]byte(`{"flows": [`+flowJSON+`]}`), "")
			if err != nil {
				return "", err
			}
			env := envs.NewBuilder().Build()
			contact := flows.NewEmptyContact(sa, "Bob", "eng", nil)
			trigger := triggers.NewBuilder(env, assets.NewFlowReference("8ca44c09-791d-453a-9799-a70dd3303306", "Determinism"), contact).Manual().Build()
			_, sprint, err := test.NewEngine().NewSession(sa, trigger)
			if err != nil {
				return "", err
			}
			var sb strings.Builder
			for _, e := range sprint.Events() {
				if ee, ok := e.(*events.ErrorEvent); ok {
					sb.WriteString(ee.Text + " | ")
				}
			}
			return sb.String(), nil
		}
	case strings.Contains(obl, "definition::localization.Languages"):
		what = "json of flow.Inspect() for a flow with four translation languages (translations referring to different fields)"
		scenario = func() (string, error) { return gocvC08Inspect(gocvC08FlowLanguages) }
	case strings.Contains(obl, "inspect::extractTemplates"):
		what = "json of flow.Inspect() for a flow whose call_webhook action has four templated headers"
		scenario = func() (string, error) { return gocvC08Inspect(gocvC08FlowHeaders) }
	case strings.Contains(obl, "issues::Check"):
		what = "json of flow.Inspect() for a flow with three kinds of issue (legacy_extra reference, missing group, invalid regex) on one node"
		scenario = func() (string, error) { return gocvC08Inspect(gocvC08FlowIssues) }
	default:
		fmt.Println("REPLAY: not-reproduced (no scenario for this site)")
		return
	}
	_ = gocvC08FlowAll
	first, err := scenario()
	if err != nil {
		fmt.Printf("REPLAY: not-reproduced (scenario error: %v)\n", err)
		return
	}
	for i := 0; i < 200; i++ {
		s, _ := scenario()
		if s != first {
			a, b := first, s
			// show where they part
			k := 0
			for k < len(a) && k < len(b) && a[k] == b[k] {
				k++
			}
			lo := max(0, k-60)
			fmt.Printf("REPLAY: reproduced repetition %d of the same call gave different bytes: %s; first ...%s... then ...%s...\n", i+2, what, strings.ReplaceAll(a[lo:min(len(a), k+60)], "\n", " "), strings.ReplaceAll(b[lo:min(len(b), k+60)], "\n", " "))
			return
		}
	}
	fmt.Println("REPLAY: not-reproduced")
}
