package engine_test

// Replay adapter for C07 obligations about which router method decides the exit (injected with `go test -overlay`).
// Scenario region: a parent flow enters a child flow whose msg wait has a timeout; the session is resumed by a message
// or by a wait timeout and the child ends in the same sprint, so the engine resumes the parent and routes its (wait-less)
// switch on @child.status. Oracle (the property's own clause): every switch router leaves by the exit of the category
// of the first case matching the operand; only the router of the node that was waiting leaves by its timeout category.

import (
	"encoding/json"
	"fmt"
	"os"
	"testing"

	"github.com/nyaruka/goflow/assets"
	"github.com/nyaruka/goflow/envs"
	"github.com/nyaruka/goflow/flows"
	"github.com/nyaruka/goflow/flows/resumes"
	"github.com/nyaruka/goflow/flows/triggers"
	"github.com/nyaruka/goflow/test"
)

const gocvC07Assets = `{"flows": [{"uuid": "76f0a02f-3b75-4b86-9064-e9195e1b3a02", "name": "Parent Flow", "spec_version": "13.0", "language": "eng", "type": "messaging", "nodes": [{"uuid": "e97a43c1-a15b-4566-bb6d-dfd2b18408e1", "actions": [{"uuid": "300f02ba-e0b5-4991-bed6-4c240cdb8743", "type": "enter_flow", "flow": {"uuid": "a8d27b94-d3d0-4a96-8074-0f162f342195", "name": "Child Flow"}}], "router": {"type": "switch", "result_name": "Child Status", "categories": [{"uuid": "2ce7eeea-ee70-4e1a-b8f4-84d8102a8aef", "name": "Completed", "exit_uuid": "4d043c51-260c-4a5f-a7d7-defd1067c9f2"}, {"uuid": "9f7632ee-6e35-4247-9235-c4c7663fd601", "name": "Expired", "exit_uuid": "19a1c2ad-719e-4f1a-b128-863ba4222a1a"}], "operand": "@child.status", "cases": [{"uuid": "19a95efc-ac69-4b6a-a90b-f84a60b49e4f", "type": "has_only_text", "arguments": ["completed"], "category_uuid": "2ce7eeea-ee70-4e1a-b8f4-84d8102a8aef"}, {"uuid": "8b4def38-17ca-4207-8b6f-d81fb64a2dc6", "type": "has_only_text", "arguments": ["expired"], "category_uuid": "9f7632ee-6e35-4247-9235-c4c7663fd601"}], "default_category_uuid": "9f7632ee-6e35-4247-9235-c4c7663fd601"}, "exits": [{"uuid": "4d043c51-260c-4a5f-a7d7-defd1067c9f2", "destination_uuid": "c8380f24-7524-4340-9d38-db8a131d2b70"}, {"uuid": "19a1c2ad-719e-4f1a-b128-863ba4222a1a"}]}, {"uuid": "c8380f24-7524-4340-9d38-db8a131d2b70", "actions": [{"uuid": "5d51eae6-be0f-4cc7-9402-150aa1ed80a1", "type": "send_msg", "text": "Child flow completed"}], "exits": [{"uuid": "9b13f6ac-5257-4cec-8d5c-545ba85bc832"}]}]}, {"uuid": "a8d27b94-d3d0-4a96-8074-0f162f342195", "name": "Child flow", "spec_version": "13.0", "language": "eng", "type": "messaging", "nodes": [{"uuid": "3689e39d-608e-4e85-8a18-c9aa6375bb43", "actions": [{"uuid": "e5a03dde-3b2f-4603-b5d0-d927f6bcc361", "type": "send_msg", "text": "What is your name?"}], "router": {"type": "switch", "wait": {"type": "msg", "timeout": {"seconds": 600, "category_uuid": "910521f5-d709-437e-b7b7-5aab3d83ffb5"}}, "result_name": "Name", "categories": [{"uuid": "58743fc9-6b4c-41dd-a844-8568f093e65b", "name": "All Responses", "exit_uuid": "78f74c5c-5797-4bcf-8d05-7f38e34e968d"}, {"uuid": "910521f5-d709-437e-b7b7-5aab3d83ffb5", "name": "No Response", "exit_uuid": "d856f8de-0b07-48d9-b641-87f68b46500d"}], "default_category_uuid": "58743fc9-6b4c-41dd-a844-8568f093e65b", "operand": "@input.text", "cases": []}, "exits": [{"uuid": "78f74c5c-5797-4bcf-8d05-7f38e34e968d"}, {"uuid": "d856f8de-0b07-48d9-b641-87f68b46500d"}]}]}]}`

func TestGocvReplayParentRouting(t *testing.T) {
	if _, err := os.ReadFile(os.Getenv("GOCV_REPLAY")); err != nil {
		t.Skip("no replay file")
	}
	for _, timeout := range []bool{false, true} {
		sa, err := test.CreateSessionAssets(json.RawMessage(gocvC07Assets), "")
		if err != nil {
			t.Fatal(err)
		}
		flow, _ := sa.Flows().Get("76f0a02f-3b75-4b86-9064-e9195e1b3a02")
		contact, err := flows.ReadContact(sa, json.RawMessage(`{"uuid": "5d76d86b-3bb9-4d5a-b822-c9d86f5d8e4f", "name": "Ryan Lewis", "language": "eng", "urns": ["tel:+12065551212"], "created_on": "2018-06-20T11:40:30.123456789-00:00"}`), assets.PanicOnMissing)
		if err != nil {
			t.Fatal(err)
		}
		env := envs.NewBuilder().Build()
		session, _, err := test.NewEngine().NewSession(sa, triggers.NewBuilder(env, flow.Reference(false), contact).Manual().Build())
		if err != nil || session.Status() != flows.SessionStatusWaiting {
			t.Fatalf("scenario did not reach the wait: %v", err)
		}
		var resume flows.Resume
		what := "a message"
		if timeout {
			resume, what = resumes.NewWaitTimeout(nil, nil), "a wait timeout"
		} else {
			resume = resumes.NewMsg(nil, nil, flows.NewMsgIn("2d611e17-fb22-457f-b802-b8f7ec5cda5b", "tel:+12065551212", nil, "Bob", nil))
		}
		if _, err := session.Resume(resume); err != nil {
			fmt.Printf("REPLAY: reproduced resume by %s returned %v\n", what, err)
			return
		}
		parent, child := session.Runs()[0], session.Runs()[1]
		wantChild := "All Responses"
		if timeout {
			wantChild = "No Response"
		}
		if r := child.Results().Get("name"); r == nil || r.Category != wantChild {
			fmt.Printf("REPLAY: reproduced resume by %s: the waiting node's router did not leave by %q (result %v)\n", what, wantChild, r)
			return
		}
		// @child.status is "completed": the first case of the parent's switch (has_only_text completed) matches
		r := parent.Results().Get("child_status")
		if r == nil || r.Category != "Completed" || parent.Path()[0].ExitUUID() != "4d043c51-260c-4a5f-a7d7-defd1067c9f2" || session.Status() != flows.SessionStatusCompleted {
			fmt.Printf("REPLAY: reproduced resume by %s, child run ends in the same sprint: the parent's switch on @child.status (operand \"completed\", first case has_only_text(completed) -> Completed) did not leave by that category: result=%v exit=%q parent=%s session=%s\n", what, r, parent.Path()[0].ExitUUID(), parent.Status(), session.Status())
			return
		}
	}
	fmt.Println("REPLAY: not-reproduced")
}
