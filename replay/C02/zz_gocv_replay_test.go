package engine_test

// Replay adapter for C02 (injected with `go test -overlay`): runs small sessions twice with the same clock and UUID
// sources - once keeping the session object alive, once marshalling and re-reading it before every resume - and
// compares the events of every sprint and the final session JSON; also checks marshal -> read -> marshal.

import (
	"fmt"
	"os"
	"testing"
	"time"

	"github.com/nyaruka/gocommon/dates"
	"github.com/nyaruka/gocommon/jsonx"
	"github.com/nyaruka/gocommon/urns"
	"github.com/nyaruka/gocommon/uuids"
	"github.com/nyaruka/goflow/assets"
	"github.com/nyaruka/goflow/envs"
	"github.com/nyaruka/goflow/flows"
	"github.com/nyaruka/goflow/flows/resumes"
	"github.com/nyaruka/goflow/flows/triggers"
	"github.com/nyaruka/goflow/test"
)

const gocvC02Assets = `{
	"flows": [{
		"uuid": "1b462ce8-983a-4393-b133-e15a0efdb70c", "name": "Restart", "spec_version": "13.0", "language": "eng", "type": "messaging",
		"nodes": [
			{"uuid": "46d51f50-58de-49da-8d13-dadbf322685d",
			 "router": {"type": "switch", "wait": {"type": "msg"}, "operand": "@input.text", "result_name": "Answer", "default_category_uuid": "8720f157-ca1c-432f-9c0b-2014ddc77094",
				"categories": [{"uuid": "8720f157-ca1c-432f-9c0b-2014ddc77094", "name": "All", "exit_uuid": "37d8813f-1402-4ad2-9cc2-e9054a96525b"}], "cases": []},
			 "exits": [{"uuid": "37d8813f-1402-4ad2-9cc2-e9054a96525b", "destination_uuid": "a6666666-6666-4666-8666-666666666666"}]},
			{"uuid": "a6666666-6666-4666-8666-666666666666",
			 "actions": [
				{"type": "open_ticket", "uuid": "ad154980-7bf7-4ab8-8728-545fd6378912", "topic": {"uuid": "472a7a73-96cb-4736-b567-056d987cc5b4", "name": "General"}, "body": "help", "result_name": "Ticket"},
				{"type": "send_msg", "uuid": "5ad99f45-3a05-4be7-8d6a-0e0c9d2b1e3f", "text": "Thanks @results.answer.value, last seen @contact.last_seen_on"}],
			 "router": {"type": "switch", "wait": {"type": "msg"}, "operand": "@input.text", "default_category_uuid": "d6666666-6666-4666-8666-666666666666",
				"categories": [{"uuid": "d6666666-6666-4666-8666-666666666666", "name": "All", "exit_uuid": "c6666666-6666-4666-8666-666666666666"}], "cases": []},
			 "exits": [{"uuid": "c6666666-6666-4666-8666-666666666666"}]}
		]
	}],
	"topics": [{"uuid": "472a7a73-96cb-4736-b567-056d987cc5b4", "name": "General"}]
}`

func gocvC02Run(batch bool, restart bool, urn string, seen bool) (out []string, err error) {
	uuids.SetGenerator(uuids.NewSeededGenerator(123456, time.Now))
	dates.SetNowFunc(dates.NewSequentialNow(time.Date(2018, 7, 6, 12, 30, 0, 123456789, time.UTC), time.Second))
	defer uuids.SetGenerator(uuids.DefaultGenerator)
	defer dates.SetNowFunc(time.Now)
	sa, err := test.CreateSessionAssets([]byte(gocvC02Assets), "")
	if err != nil {
		return nil, err
	}
	env := envs.NewBuilder().Build()
	contact := flows.NewEmptyContact(sa, "Bob", "eng", nil)
	contact.AddURN(urns.URN("tel:+12065551212"), nil)
	if seen {
		// a contact that has been seen before: the trigger's contact and the session's clone of it start from the same value
		contact.SetLastSeenOn(time.Date(2018, 7, 1, 8, 0, 0, 0, time.UTC))
	}
	mb := triggers.NewBuilder(env, assets.NewFlowReference("1b462ce8-983a-4393-b133-e15a0efdb70c", "Restart"), contact).Manual()
	if batch {
		mb = mb.AsBatch()
	}
	eng := test.NewEngine()
	session, sprint, err := eng.NewSession(sa, mb.Build())
	if err != nil {
		return nil, err
	}
	ev, _ := jsonx.Marshal(sprint.Events())
	out = append(out, string(ev))
	for i := 0; i < 2 && session.Status() == flows.SessionStatusWaiting; i++ {
		if restart {
			data, err := jsonx.Marshal(session)
			if err != nil {
				return nil, err
			}
			session, err = eng.ReadSession(sa, data, assets.IgnoreMissing)
			if err != nil {
				return nil, err
			}
			again, _ := jsonx.Marshal(session)
			if string(again) != string(data) {
				out = append(out, "REMARSHAL DIFFERS: "+string(again))
			} else {
				out = append(out, "remarshal same")
			}
		} else {
			out = append(out, "remarshal same")
		}
		msg := flows.NewMsgIn("2d611e17-fb22-457f-b802-b8f7ec5cda5b", urns.URN(urn), nil, fmt.Sprintf("reply %d", i), nil)
		sp, err := session.Resume(resumes.NewMsg(nil, nil, msg))
		if err != nil {
			out = append(out, "resume error: "+err.Error())
			break
		}
		ev, _ := jsonx.Marshal(sp.Events())
		out = append(out, string(ev))
	}
	final, _ := jsonx.Marshal(session)
	out = append(out, string(final))
	return out, nil
}

func TestGocvReplayRestart(t *testing.T) {
	if _, err := os.ReadFile(os.Getenv("GOCV_REPLAY")); err != nil {
		t.Skip("no replay file")
	}
	for _, batch := range []bool{true, false} {
		for _, urn := range []string{"tel:+12065551212", "mailto:Ben.Haggerty@Example.com", "SEEN"} {
			seen := urn == "SEEN"
			if seen {
				urn = "tel:+12065551212"
			}
			live, err1 := gocvC02Run(batch, false, urn, seen)
			restored, err2 := gocvC02Run(batch, true, urn, seen)
			if err1 != nil || err2 != nil {
				continue
			}
			for i := range live {
				if i >= len(restored) || live[i] != restored[i] {
					a, b := live[i], ""
					if i < len(restored) {
						b = restored[i]
					}
					k := 0
					for k < len(a) && k < len(b) && a[k] == b[k] {
						k++
					}
					lo := max(0, k-80)
					fmt.Printf("REPLAY: reproduced session started with batch=%v, replies from %s: output %d differs between the session kept in memory and the one marshalled and re-read before each resume: live ...%s... restored ...%s...\n",
						batch, urn, i, a[lo:min(len(a), k+120)], b[lo:min(len(b), k+120)])
					return
				}
			}
		}
	}
	fmt.Println("REPLAY: not-reproduced")
}
