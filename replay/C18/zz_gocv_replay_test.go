package routers_test

// Replay adapter for C18 obligations (injected with `go test -overlay`). Region driver: one flow (base language eng;
// spa translations of the message text, a case's arguments and both category names; fra translation of one category
// name only; a stale section keyed by the base language itself) run for every combination of contact language,
// allowed-language list and contact name, with an oracle written from the property's statement: preference list =
// contact's language if allowed, then the environment default, then the flow's base language; the first of these that
// is the base language (base text) or has a translation of the item wins, otherwise the base text.

import (
	"fmt"
	"os"
	"testing"

	"github.com/nyaruka/gocommon/i18n"
	"github.com/nyaruka/goflow/envs"
	"github.com/nyaruka/goflow/flows/events"
	"github.com/nyaruka/goflow/test"
)

const gocvC18Assets = `{"channels": [{"uuid": "57f1078f-88aa-46f4-a59a-948a5739c03d", "name": "Android", "address": "+17036975131", "schemes": ["tel"], "roles": ["send", "receive"]}], "flows": [{"uuid": "50c3706e-fedb-42c0-8eab-dda3335714b7", "name": "Category Localization", "spec_version": "13.0", "language": "eng", "type": "messaging", "revision": 1, "localization": {"spa": {"0a8467eb-911a-41db-8101-ccf415c48e6a": {"text": ["Hola"]}, "e2b1a5c0-3d7e-4c5b-8a56-4f1d2c3b4a50": {"arguments": ["roberto bob"]}, "9c1b7a44-5a0f-4a55-b2a1-7e8d9f0a1b2c": {"name": ["Conocido"]}, "d7a0b1f2-6a0a-4c0e-9d43-6a1b0c9b9f01": {"name": ["Otro"]}}, "eng": {"0a8467eb-911a-41db-8101-ccf415c48e6a": {"text": ["Hello (stale)"]}, "9c1b7a44-5a0f-4a55-b2a1-7e8d9f0a1b2c": {"name": ["Stale Known"]}, "d7a0b1f2-6a0a-4c0e-9d43-6a1b0c9b9f01": {"name": ["Stale Other"]}}, "fra": {"d7a0b1f2-6a0a-4c0e-9d43-6a1b0c9b9f01": {"name": ["Autre"]}}}, "nodes": [{"uuid": "cefd2817-38a8-4ddb-af97-34fffac7e6db", "actions": [{"uuid": "0a8467eb-911a-41db-8101-ccf415c48e6a", "type": "send_msg", "text": "Hello"}], "exits": [{"uuid": "bbaaec87-a646-435d-bade-e0a8ac09beb8", "destination_uuid": "5b6c8a4e-7d0d-4a6b-8f65-0f0e6b3d2a11"}]}, {"uuid": "5b6c8a4e-7d0d-4a6b-8f65-0f0e6b3d2a11", "router": {"type": "switch", "operand": "@contact.name", "result_name": "Kind", "cases": [{"uuid": "e2b1a5c0-3d7e-4c5b-8a56-4f1d2c3b4a50", "type": "has_any_word", "arguments": ["bob"], "category_uuid": "9c1b7a44-5a0f-4a55-b2a1-7e8d9f0a1b2c"}], "categories": [{"uuid": "9c1b7a44-5a0f-4a55-b2a1-7e8d9f0a1b2c", "name": "Known", "exit_uuid": "3f1d6d55-2f5c-4a3e-9a55-1d7f1f2b8c22"}, {"uuid": "d7a0b1f2-6a0a-4c0e-9d43-6a1b0c9b9f01", "name": "Other", "exit_uuid": "8a2e4f66-1b3c-4d5e-9f70-2a3b4c5d6e7f"}], "default_category_uuid": "d7a0b1f2-6a0a-4c0e-9d43-6a1b0c9b9f01"}, "exits": [{"uuid": "3f1d6d55-2f5c-4a3e-9a55-1d7f1f2b8c22"}, {"uuid": "8a2e4f66-1b3c-4d5e-9f70-2a3b4c5d6e7f"}]}]}]}`

func TestGocvReplayLanguageFallback(t *testing.T) {
	if _, err := os.ReadFile(os.Getenv("GOCV_REPLAY")); err != nil {
		t.Skip("no replay file")
	}
	const base = i18n.Language("eng")
	// translations per language (the stale eng section must never be used: eng is the base language)
	text := map[i18n.Language]string{"spa": "Hola"}
	catKnown := map[i18n.Language]string{"spa": "Conocido"}
	catOther := map[i18n.Language]string{"spa": "Otro", "fra": "Autre"}
	pick := func(prefs []i18n.Language, tr map[i18n.Language]string, baseText string) (string, i18n.Language) {
		for _, l := range prefs {
			if l == base {
				return baseText, base
			}
			if s, ok := tr[l]; ok {
				return s, l
			}
		}
		return baseText, base
	}
	for _, allowed := range [][]i18n.Language{{"eng", "spa"}, {"spa", "eng"}, {"spa"}, {"spa", "fra"}, {"fra", "spa"}, {"fra"}, {"eng"}} {
		for _, cl := range []i18n.Language{"eng", "spa", "fra", "kin", i18n.NilLanguage} {
			for _, name := range []string{"Bob", "Jim"} {
				var prefs []i18n.Language
				for _, a := range allowed {
					if cl != i18n.NilLanguage && a == cl {
						prefs = append(prefs, cl)
					}
				}
				prefs = append(prefs, allowed[0], base)
				env := envs.NewBuilder().WithAllowedLanguages(allowed...).Build()
				_, session, sp, err := test.NewSessionBuilder().WithEnvironment(env).
					WithContact("2efa1803-ae4d-4a58-ba54-b523e53e40f3", 123, name, cl, "tel:+12065551212").
					WithAssetsJSON([]byte(gocvC18Assets)).Build()
				if err != nil {
					t.Fatal(err)
				}
				what := fmt.Sprintf("flow base eng, allowed languages %v, contact language %q, contact name %s", allowed, cl, name)
				wantText, wantLang := pick(prefs, text, "Hello")
				for _, e := range sp.Events() {
					if mc, ok := e.(*events.MsgCreatedEvent); ok {
						gotLang, _ := mc.Msg.Locale().Split()
						if mc.Msg.Text() != wantText || gotLang != wantLang {
							fmt.Printf("REPLAY: reproduced %s: message text %q in %q, the fallback chain %v picks %q in %q\n", what, mc.Msg.Text(), gotLang, prefs, wantText, wantLang)
							return
						}
					}
				}
				// the case arguments are localized too: "bob" in eng, "roberto bob" in spa - Bob matches either way, Jim never
				r := session.Runs()[0].Results().Get("kind")
				if r == nil {
					fmt.Printf("REPLAY: reproduced %s: no result saved\n", what)
					return
				}
				wantCat, tr := "Known", catKnown
				if name == "Jim" {
					wantCat, tr = "Other", catOther
				}
				wantLoc, wl := pick(prefs, tr, wantCat)
				if wl == base {
					wantLoc = "" // the base name is not repeated as a localized name
				}
				if r.Category != wantCat || (r.CategoryLocalized != wantLoc && !(wl == base && r.CategoryLocalized == wantCat)) {
					fmt.Printf("REPLAY: reproduced %s: result category %q localized %q, the fallback chain %v picks %q localized %q\n", what, r.Category, r.CategoryLocalized, prefs, wantCat, wantLoc)
					return
				}
			}
		}
	}
	fmt.Println("REPLAY: not-reproduced")
}
