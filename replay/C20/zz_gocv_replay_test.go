package engine_test

// Replay adapter for C20 (injected with `go test -overlay`): runs small flows (one per action / wait kind)
// on the real engine and compares what the run did with what flow.Inspect() declares: every
// run_result_changed event must have its key (and category, when categories are declared) in
// Inspect().Results; every exit a resumed wait leaves through must be in Inspect().WaitingExits.

import (
	"fmt"
	"os"
	"slices"
	"strings"
	"testing"

	"github.com/nyaruka/gocommon/urns"
	"github.com/nyaruka/goflow/assets"
	"github.com/nyaruka/goflow/envs"
	"github.com/nyaruka/goflow/flows"
	"github.com/nyaruka/goflow/flows/events"
	"github.com/nyaruka/goflow/flows/resumes"
	"github.com/nyaruka/goflow/flows/triggers"
	"github.com/nyaruka/goflow/test"
	"github.com/nyaruka/goflow/utils"
)

func gocvC20Assets(flowType, actions, router string) string {
	return fmt.Sprintf(`{
	"flows": [{
		"uuid": "1b462ce8-983a-4393-b133-e15a0efdb70c", "name": "Inspect", "spec_version": "13.0", "language": "eng", "type": %q,
		"nodes": [{"uuid": "46d51f50-58de-49da-8d13-dadbf322685d", "actions": [%s] %s,
			"exits": [{"uuid": "37d8813f-1402-4ad2-9cc2-e9054a96525b"}, {"uuid": "0a4f2ea9-c47f-4e9c-a242-89ae5b38d679"}]}]
	}],
	"topics": [{"uuid": "472a7a73-96cb-4736-b567-056d987cc5b4", "name": "General"}],
	"channels": [{"uuid": "57f1078f-88aa-46f4-a59a-948a5739c03d", "name": "Phone", "address": "+12345671111", "schemes": ["tel"], "roles": ["send", "receive", "call", "answer"]}]
}`, flowType, actions, router)
}

func TestGocvReplayInspection(t *testing.T) {
	if _, err := os.ReadFile(os.Getenv("GOCV_REPLAY")); err != nil {
		t.Skip("no replay file")
	}
	msgRouter := `, "router": {"type": "switch", "wait": {"type": "msg"}, "operand": "@input.text", "result_name": "Answer", "default_category_uuid": "8720f157-ca1c-432f-9c0b-2014ddc77094",
		"categories": [{"uuid": "8720f157-ca1c-432f-9c0b-2014ddc77094", "name": "Other", "exit_uuid": "37d8813f-1402-4ad2-9cc2-e9054a96525b"}, {"uuid": "6e367c0c-65ab-479a-82e3-c597d8e35eef", "name": "Yes", "exit_uuid": "0a4f2ea9-c47f-4e9c-a242-89ae5b38d679"}],
		"cases": [{"uuid": "5d6abc80-39e7-4620-9988-a2447bffe526", "type": "has_any_word", "arguments": ["yes"], "category_uuid": "6e367c0c-65ab-479a-82e3-c597d8e35eef"}]}`
	dialRouter := `, "router": {"type": "switch", "wait": {"type": "dial", "phone": "+593979123456"}, "operand": "@(default(resume.dial.status, \"\"))", "default_category_uuid": "8720f157-ca1c-432f-9c0b-2014ddc77094",
		"categories": [{"uuid": "8720f157-ca1c-432f-9c0b-2014ddc77094", "name": "Other", "exit_uuid": "37d8813f-1402-4ad2-9cc2-e9054a96525b"}, {"uuid": "6e367c0c-65ab-479a-82e3-c597d8e35eef", "name": "Answered", "exit_uuid": "0a4f2ea9-c47f-4e9c-a242-89ae5b38d679"}],
		"cases": [{"uuid": "5d6abc80-39e7-4620-9988-a2447bffe526", "type": "has_only_text", "arguments": ["answered"], "category_uuid": "6e367c0c-65ab-479a-82e3-c597d8e35eef"}]}`
	scenarios := []struct{ name, flowType, actions, router, resume string }{
		{"open_ticket with a result name", "messaging", `{"type": "open_ticket", "uuid": "ad154980-7bf7-4ab8-8728-545fd6378912", "topic": {"uuid": "472a7a73-96cb-4736-b567-056d987cc5b4", "name": "General"}, "body": "help", "result_name": "Ticket"}`, "", ""},
		{"set_run_result twice under one name", "messaging", `{"type": "set_run_result", "uuid": "ad154980-7bf7-4ab8-8728-545fd6378912", "name": "Status", "value": "1", "category": "Open"}, {"type": "set_run_result", "uuid": "5ad99f45-3a05-4be7-8d6a-0e0c9d2b1e3f", "name": "Status", "value": "2", "category": "Closed"}`, "", ""},
		{"msg wait", "messaging", "", msgRouter, "msg"},
		{"dial wait", "voice", "", dialRouter, "dial"},
	}
	env := envs.NewBuilder().Build()
	obl := os.Getenv("GOCV_REPLAY_OBLIGATION")
	for _, sc := range scenarios {
		// only the scenarios that exercise the failed obligation's site
		switch {
		case strings.Contains(obl, "OpenTicketAction") && !strings.Contains(sc.name, "open_ticket"):
			continue
		case strings.Contains(obl, "extractExitsFromWaits") && sc.resume == "":
			continue
		case strings.Contains(obl, "result_coupling") && !strings.Contains(obl, "OpenTicketAction") && strings.Contains(sc.name, "open_ticket"):
			continue
		}
		sa, err := test.CreateSessionAssets([]byte(gocvC20Assets(sc.flowType, sc.actions, sc.router)), "")
		if err != nil {
			fmt.Printf("scenario %s: %v\n", sc.name, err)
			continue
		}
		flow, err := sa.Flows().Get("1b462ce8-983a-4393-b133-e15a0efdb70c")
		if err != nil {
			fmt.Printf("scenario %s: %v\n", sc.name, err)
			continue
		}
		info := flow.Inspect(sa)
		contact := flows.NewEmptyContact(sa, "Bob", "eng", nil)
		contact.AddURN(urns.URN("tel:+12065551212"), nil)
		tb := triggers.NewBuilder(env, assets.NewFlowReference("1b462ce8-983a-4393-b133-e15a0efdb70c", "Inspect"), contact).Manual()
		var trigger flows.Trigger = tb.Build()
		if sc.flowType == "voice" {
			trigger = tb.WithCall(assets.NewChannelReference("57f1078f-88aa-46f4-a59a-948a5739c03d", "Phone"), urns.URN("tel:+12065551212")).Build()
		}
		session, sprint, err := test.NewEngine().NewSession(sa, trigger)
		if err != nil {
			fmt.Printf("scenario %s: %v\n", sc.name, err)
			continue
		}
		check := func(sp flows.Sprint) string {
			for _, e := range sp.Events() {
				ev, ok := e.(*events.RunResultChangedEvent)
				if !ok {
					continue
				}
				found := false
				for _, spec := range info.Results {
					if spec.Key == utils.Snakify(ev.Name) {
						found = true
						if len(spec.Categories) > 0 && !slices.Contains(spec.Categories, ev.Category) {
							return fmt.Sprintf("the run saved result %q with category %q but Inspect().Results lists categories %v for it", ev.Name, ev.Category, spec.Categories)
						}
					}
				}
				if !found {
					return fmt.Sprintf("the run saved result %q (run_result_changed) but Inspect().Results does not list it (results: %d)", ev.Name, len(info.Results))
				}
			}
			return ""
		}
		if p := check(sprint); p != "" {
			fmt.Printf("REPLAY: reproduced flow with %s: %s\n", sc.name, p)
			return
		}
		if sc.resume != "" && session.Status() == flows.SessionStatusWaiting {
			var res flows.Resume
			if sc.resume == "msg" {
				res = resumes.NewMsg(nil, nil, flows.NewMsgIn("2d611e17-fb22-457f-b802-b8f7ec5cda5b", urns.URN("tel:+12065551212"), nil, "yes", nil))
			} else {
				res = resumes.NewDial(nil, nil, flows.NewDial(flows.DialStatusAnswered, 5))
			}
			sp2, err := session.Resume(res)
			if err != nil {
				fmt.Printf("scenario %s: resume: %v\n", sc.name, err)
				continue
			}
			if p := check(sp2); p != "" {
				fmt.Printf("REPLAY: reproduced flow with %s: %s\n", sc.name, p)
				return
			}
			for _, r := range session.Runs() {
				for _, st := range r.Path() {
					if st.ExitUUID() != "" && !slices.Contains(info.WaitingExits, st.ExitUUID()) {
						fmt.Printf("REPLAY: reproduced flow with a %s: the resumed session left the wait through exit %s, which Inspect().WaitingExits %v does not list\n", sc.name, st.ExitUUID(), info.WaitingExits)
						return
					}
				}
			}
		}
	}
	_ = strings.TrimSpace
	fmt.Println("REPLAY: not-reproduced")
}
