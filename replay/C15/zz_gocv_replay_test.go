package contactql

// Replay adapter for C15 obligations (injected with `go test -overlay`, never written to /repo).
// Reads the verifier's counterexample (GOCV_REPLAY = path of the replay json) and evaluates the
// failed contract clause on the real functions.

import (
	"encoding/json"
	"fmt"
	"os"
	"strings"
	"testing"
	"time"

	"github.com/nyaruka/goflow/assets"
	"github.com/nyaruka/goflow/assets/static"
	"github.com/nyaruka/goflow/envs"
	"github.com/shopspring/decimal"
)

type gocvReplay struct {
	Obligation string                 `json:"obligation"`
	Inputs     map[string]interface{} `json:"inputs"`
}

func gocvLoad(t *testing.T) *gocvReplay {
	d, err := os.ReadFile(os.Getenv("GOCV_REPLAY"))
	if err != nil {
		t.Skip("no replay file")
	}
	r := &gocvReplay{}
	if err := json.Unmarshal(d, r); err != nil {
		t.Fatal(err)
	}
	return r
}

// string input: literal text if the model pinned it to a literal, else one of the alternatives
func (r *gocvReplay) strs(name string, alts ...string) []string {
	if m, ok := r.Inputs[name].(map[string]interface{}); ok {
		if l, ok := m["lit"].(string); ok {
			return []string{l}
		}
	}
	return alts
}

func (r *gocvReplay) num(name string) (int64, bool) {
	s, ok := r.Inputs[name].(string)
	if !ok {
		return 0, false
	}
	var n int64
	if _, err := fmt.Sscan(s, &n); err != nil {
		return 0, false
	}
	return n, true
}

type gocvResolver struct{ fields map[string]assets.Field }

func (r *gocvResolver) ResolveField(key string) assets.Field  { return r.fields[key] }
func (r *gocvResolver) ResolveGroup(name string) assets.Group { return nil }
func (r *gocvResolver) ResolveFlow(name string) assets.Flow   { return nil }

type gocvQueryable struct{ vals []any }

func (q *gocvQueryable) QueryProperty(envs.Environment, string, PropertyType) []any { return q.vals }

var gocvOps = []string{"=", "!=", "~", ">", "<", ">=", "<="}

func gocvIsNumOrDate(vt assets.FieldType) bool {
	return vt == assets.FieldTypeNumber || vt == assets.FieldTypeDatetime
}

// validate/post[validated]: result == nil ==> CondOK(c, resolver); and (end to end) evaluation of a
// validated condition on a correctly typed value does not panic.
func TestGocvReplayValidate(t *testing.T) {
	r := gocvLoad(t)
	env := envs.NewBuilder().Build()
	for _, op := range r.strs("c.operator", gocvOps...) {
		for _, pt := range r.strs("c.propType", "attr", "urn", "field") {
			for _, key := range r.strs("c.propKey", "name", "urn", "age", "tel", "created_on", "tickets", "language") {
				for _, value := range r.strs("c.value", "", "10", "2020-01-01", "abcd") {
					for _, ft := range []assets.FieldType{assets.FieldTypeText, assets.FieldTypeNumber, assets.FieldTypeDatetime, assets.FieldTypeState} {
						resolver := &gocvResolver{fields: map[string]assets.Field{key: static.NewField("f6e0c2a8-7e8a-4c8e-9b5a-3c1b4a3e2d10", key, key, ft)}}
						c := NewCondition(PropertyType(pt), key, Operator(op), value)
						if err := c.validate(env, resolver); err != nil {
							continue
						}
						vt := c.resolveValueType(resolver)
						condOK := (op != "~" || !gocvIsNumOrDate(vt)) && (!(op == ">" || op == "<" || op == ">=" || op == "<=") || gocvIsNumOrDate(vt))
						// the evaluator drops the errors of ValueAsNumber / ValueAsDate: unless this is an existence check the value must parse
						if existence := value == "" && (op == "=" || op == "!="); !existence {
							if vt == assets.FieldTypeNumber {
								if _, err := c.ValueAsNumber(); err != nil {
									condOK = false
								}
							} else if vt == assets.FieldTypeDatetime {
								if _, err := c.ValueAsDate(env); err != nil {
									condOK = false
								}
							}
						}
						var val any = "abcd"
						if vt == assets.FieldTypeNumber {
							val = decimal.RequireFromString("10")
						} else if vt == assets.FieldTypeDatetime {
							val = time.Date(2020, 1, 1, 0, 0, 0, 0, time.UTC)
						}
						panicked := func() (p any) {
							defer func() { p = recover() }()
							evaluateNode(env, resolver, c, &gocvQueryable{vals: []any{val}})
							return nil
						}()
						if !condOK || panicked != nil {
							fmt.Printf("REPLAY: reproduced validate accepted %s (property type %s, value type %s) but CondOK=%v, evaluation panic=%v\n", c, pt, vt, condOK, panicked)
							return
						}
					}
				}
			}
		}
	}
	fmt.Println("REPLAY: not-reproduced")
}

// dateComparison / numberComparison clauses: offsets from the model, real day range from the real code
func TestGocvReplayComparison(t *testing.T) {
	r := gocvLoad(t)
	isDate := strings.Contains(r.Obligation, "dateComparison")
	for _, op := range r.strs("op", "=", "!=", ">", "<", ">=", "<=") {
		if isDate {
			delta, ok := r.num("delta")
			if !ok {
				continue
			}
			for _, loc := range []*time.Location{time.UTC, time.FixedZone("x", -5*3600), time.FixedZone("y", 9*3600+1800)} {
				q := time.Date(2022, 3, 14, 15, 9, 26, 0, loc)
				d0 := time.Date(2022, 3, 14, 0, 0, 0, 0, loc)
				d1 := d0.Add(24 * time.Hour)
				tv := d0.Add(time.Duration(delta))
				got := dateComparison(tv, Operator(op), q)
				inDay := !tv.Before(d0) && tv.Before(d1)
				want := map[string]bool{"=": inDay, "!=": !inDay, ">": !tv.Before(d1), ">=": !tv.Before(d0), "<": tv.Before(d0), "<=": tv.Before(d1)}[op]
				if got != want {
					fmt.Printf("REPLAY: reproduced dateComparison(%s, %q, %s) = %v, contract says %v (value is day start %+d ns)\n", tv.Format(time.RFC3339Nano), op, q.Format(time.RFC3339), got, want, delta)
					return
				}
			}
		} else {
			for _, pair := range [][2]string{{"1", "2"}, {"2", "1"}, {"2", "2"}, {"-1.5", "-1.50"}} {
				x, y := decimal.RequireFromString(pair[0]), decimal.RequireFromString(pair[1])
				got := numberComparison(x, Operator(op), y)
				cmp := x.Cmp(y)
				want := map[string]bool{"=": cmp == 0, "!=": cmp != 0, ">": cmp > 0, ">=": cmp >= 0, "<": cmp < 0, "<=": cmp <= 0}[op]
				if got != want {
					fmt.Printf("REPLAY: reproduced numberComparison(%s, %q, %s) = %v, contract says %v\n", x, op, y, got, want)
					return
				}
			}
		}
	}
	fmt.Println("REPLAY: not-reproduced")
}

// evaluateCondition clauses (absent / present / any / all) on a mock queryable with the model's number of values
func TestGocvReplayCondition(t *testing.T) {
	r := gocvLoad(t)
	env := envs.NewBuilder().Build()
	resolver := &gocvResolver{fields: map[string]assets.Field{"age": static.NewField("f6e0c2a8-7e8a-4c8e-9b5a-3c1b4a3e2d10", "age", "Age", assets.FieldTypeNumber)}}
	for _, op := range r.strs("c.operator", "=", "!=", ">", "<", ">=", "<=") {
		for _, value := range []string{"", "10"} {
			for _, vals := range [][]any{{}, {decimal.RequireFromString("10")}, {decimal.RequireFromString("9"), decimal.RequireFromString("10")}, {decimal.RequireFromString("10"), decimal.RequireFromString("9")}, {decimal.RequireFromString("8"), decimal.RequireFromString("9")}, {decimal.RequireFromString("10"), decimal.RequireFromString("9"), decimal.RequireFromString("10")}} {
				c := NewCondition(PropertyTypeField, "age", Operator(op), value)
				if c.validate(env, resolver) != nil {
					continue
				}
				got := evaluateCondition(env, resolver, c, &gocvQueryable{vals: vals})
				var want bool
				switch {
				case value == "" && op == "=":
					want = len(vals) == 0
				case value == "" && op == "!=":
					want = len(vals) > 0
				case op == "!=":
					want = true
					for _, v := range vals {
						want = want && evaluateConditionWithValue(env, resolver, c, v)
					}
				default:
					want = false
					for _, v := range vals {
						want = want || evaluateConditionWithValue(env, resolver, c, v)
					}
				}
				if got != want {
					fmt.Printf("REPLAY: reproduced evaluateCondition(age %s %q) over values %v = %v, contract says %v\n", op, value, vals, got, want)
					return
				}
			}
		}
	}
	fmt.Println("REPLAY: not-reproduced")
}
