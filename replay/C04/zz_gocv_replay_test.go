package functions_test

// Replay adapter for C04 (injected with `go test -overlay`): calls registered built-in functions through
// functions.XFUNCTIONS[name].Call with boundary arguments (zero, negatives, +-2^31, huge values, empty / nil / error
// values) under recover() and a watchdog, and reports a panic or a call that does not return within 5 seconds.

import (
	"fmt"
	"os"
	"strings"
	"testing"
	"time"

	"github.com/nyaruka/goflow/envs"
	"github.com/nyaruka/goflow/excellent/functions"
	"github.com/nyaruka/goflow/excellent/types"
	"github.com/shopspring/decimal"
)

func gocvC04Call(name string, args []types.XValue) (problem string) {
	done := make(chan string, 1)
	go func() {
		defer func() {
			if r := recover(); r != nil {
				done <- fmt.Sprintf("panicked: %v", r)
			}
		}()
		env := envs.NewBuilder().Build()
		functions.XFUNCTIONS[name].Call(env, args)
		done <- ""
	}()
	select {
	case p := <-done:
		return p
	case <-time.After(5 * time.Second):
		return "did not return within 5 seconds"
	}
}

func TestGocvReplayBuiltins(t *testing.T) {
	if _, err := os.ReadFile(os.Getenv("GOCV_REPLAY")); err != nil {
		t.Skip("no replay file")
	}
	obl := os.Getenv("GOCV_REPLAY_OBLIGATION")
	// the function the failed obligation belongs to: "C04/excellent/functions.Mod/pre@call[..]"
	goName := ""
	if i := strings.Index(obl, "excellent/functions."); i >= 0 {
		goName = obl[i+len("excellent/functions."):]
		if j := strings.Index(goName, "/"); j >= 0 {
			goName = goName[:j]
		}
	}
	byGoName := map[string]string{"Mod": "mod", "Round": "round", "RoundUp": "round_up", "RoundDown": "round_down", "Repeat": "repeat", "FormatNumber": "format_number", "Char": "char", "Word": "word", "WordSlice": "word_slice", "Field": "field", "Left": "left", "Right": "right", "TextSlice": "text_slice"}
	name, ok := byGoName[goName]
	if !ok {
		fmt.Println("REPLAY: not-reproduced (no driver for " + goName + ")")
		return
	}
	num := func(s string) types.XValue { return types.NewXNumber(decimal.RequireFromString(s)) }
	vals := []types.XValue{num("0"), num("1.5"), num("-1"), num("5"), num("2147483647"), num("-2147483648"), num("2147483648"), num("99999999999999999999"), types.NewXText(""), types.NewXText("hello world"), nil, types.NewXErrorf("boom")}
	for _, a := range vals {
		for _, b := range vals {
			if p := gocvC04Call(name, []types.XValue{a, b}); p != "" {
				fmt.Printf("REPLAY: reproduced @(%s(%s, %s)) %s\n", name, types.Describe(a)+" "+fmt.Sprint(a), types.Describe(b)+" "+fmt.Sprint(b), p)
				return
			}
		}
	}
	fmt.Println("REPLAY: not-reproduced")
}
