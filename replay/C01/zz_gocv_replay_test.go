package engine_test

// Replay adapter for C01 (injected with `go test -overlay`): drives the real engine over small flows
// (self-entering flow, parent/child with a looping or failing child, msg wait in a child) with small step /
// resume limits and checks the session state machine after every sprint: status, which runs are active /
// waiting, exited_on, and that every event a run recorded in the sprint names a step of that run.

import (
	"fmt"
	"os"
	"testing"

	"github.com/nyaruka/gocommon/urns"
	"github.com/nyaruka/goflow/assets"
	"github.com/nyaruka/goflow/envs"
	"github.com/nyaruka/goflow/flows"
	"github.com/nyaruka/goflow/flows/engine"
	"github.com/nyaruka/goflow/flows/resumes"
	"github.com/nyaruka/goflow/flows/triggers"
	"github.com/nyaruka/goflow/test"
)

const gocvC01Assets = `{
	"flows": [
		{"uuid": "11111111-1111-4111-8111-111111111111", "name": "Self", "spec_version": "13.0", "language": "eng", "type": "messaging",
		 "nodes": [{"uuid": "a1111111-1111-4111-8111-111111111111", "actions": [{"type": "enter_flow", "uuid": "b1111111-1111-4111-8111-111111111111", "flow": {"uuid": "11111111-1111-4111-8111-111111111111", "name": "Self"}}],
			"exits": [{"uuid": "c1111111-1111-4111-8111-111111111111"}]}]},
		{"uuid": "22222222-2222-4222-8222-222222222222", "name": "Parent", "spec_version": "13.0", "language": "eng", "type": "messaging",
		 "nodes": [{"uuid": "a2222222-2222-4222-8222-222222222222", "actions": [{"type": "enter_flow", "uuid": "b2222222-2222-4222-8222-222222222222", "flow": {"uuid": "33333333-3333-4333-8333-333333333333", "name": "Looping Child"}}],
			"exits": [{"uuid": "c2222222-2222-4222-8222-222222222222"}]}]},
		{"uuid": "33333333-3333-4333-8333-333333333333", "name": "Looping Child", "spec_version": "13.0", "language": "eng", "type": "messaging",
		 "nodes": [{"uuid": "a3333333-3333-4333-8333-333333333333", "actions": [], "exits": [{"uuid": "c3333333-3333-4333-8333-333333333333", "destination_uuid": "a3333333-3333-4333-8333-333333333333"}]}]},
		{"uuid": "77777777-7777-4777-8777-777777777777", "name": "Top", "spec_version": "13.0", "language": "eng", "type": "messaging",
		 "nodes": [{"uuid": "a7777777-7777-4777-8777-777777777777", "actions": [{"type": "enter_flow", "uuid": "b7777777-7777-4777-8777-777777777777", "flow": {"uuid": "88888888-8888-4888-8888-888888888888", "name": "Mid"}}],
			"exits": [{"uuid": "c7777777-7777-4777-8777-777777777777"}]}]},
		{"uuid": "88888888-8888-4888-8888-888888888888", "name": "Mid", "spec_version": "13.0", "language": "eng", "type": "messaging",
		 "nodes": [{"uuid": "a8888888-8888-4888-8888-888888888888", "actions": [
				{"type": "enter_flow", "uuid": "b8888888-8888-4888-8888-888888888888", "flow": {"uuid": "99999999-9999-4999-8999-999999999999", "name": "Leaf"}},
				{"type": "enter_flow", "uuid": "d8888888-8888-4888-8888-888888888888", "flow": {"uuid": "aaaaaaaa-aaaa-4aaa-8aaa-aaaaaaaaaaaa", "name": "Voice"}}],
			"exits": [{"uuid": "c8888888-8888-4888-8888-888888888888"}]}]},
		{"uuid": "99999999-9999-4999-8999-999999999999", "name": "Leaf", "spec_version": "13.0", "language": "eng", "type": "messaging",
		 "nodes": [{"uuid": "a9999999-9999-4999-8999-999999999999", "actions": [], "exits": [{"uuid": "c9999999-9999-4999-8999-999999999999"}]}]},
		{"uuid": "aaaaaaaa-aaaa-4aaa-8aaa-aaaaaaaaaaaa", "name": "Voice", "spec_version": "13.0", "language": "eng", "type": "voice",
		 "nodes": [{"uuid": "abababab-aaaa-4aaa-8aaa-aaaaaaaaaaaa", "actions": [], "exits": [{"uuid": "acacacac-aaaa-4aaa-8aaa-aaaaaaaaaaaa"}]}]},
		{"uuid": "44444444-4444-4444-8444-444444444444", "name": "Grandparent", "spec_version": "13.0", "language": "eng", "type": "messaging",
		 "nodes": [{"uuid": "a4444444-4444-4444-8444-444444444444", "actions": [{"type": "enter_flow", "uuid": "b4444444-4444-4444-8444-444444444444", "flow": {"uuid": "55555555-5555-4555-8555-555555555555", "name": "Waiting Parent"}}],
			"exits": [{"uuid": "c4444444-4444-4444-8444-444444444444"}]}]},
		{"uuid": "55555555-5555-4555-8555-555555555555", "name": "Waiting Parent", "spec_version": "13.0", "language": "eng", "type": "messaging",
		 "nodes": [{"uuid": "a5555555-5555-4555-8555-555555555555", "actions": [{"type": "enter_flow", "uuid": "b5555555-5555-4555-8555-555555555555", "flow": {"uuid": "66666666-6666-4666-8666-666666666666", "name": "Waiting Child"}}],
			"exits": [{"uuid": "c5555555-5555-4555-8555-555555555555"}]}]},
		{"uuid": "66666666-6666-4666-8666-666666666666", "name": "Waiting Child", "spec_version": "13.0", "language": "eng", "type": "messaging",
		 "nodes": [{"uuid": "a6666666-6666-4666-8666-666666666666",
			"router": {"type": "switch", "wait": {"type": "msg"}, "operand": "@input.text", "default_category_uuid": "d6666666-6666-4666-8666-666666666666",
				"categories": [{"uuid": "d6666666-6666-4666-8666-666666666666", "name": "All", "exit_uuid": "c6666666-6666-4666-8666-666666666666"}], "cases": []},
			"exits": [{"uuid": "c6666666-6666-4666-8666-666666666666", "destination_uuid": "a6666666-6666-4666-8666-666666666666"}]}]}
	]
}`

func gocvC01Check(session flows.Session, sprint flows.Sprint, when string) string {
	st := session.Status()
	if st != flows.SessionStatusWaiting && st != flows.SessionStatusCompleted && st != flows.SessionStatusFailed {
		return fmt.Sprintf("%s: session status is %q", when, st)
	}
	waiting := 0
	for _, r := range session.Runs() {
		exited := r.Status() == flows.RunStatusCompleted || r.Status() == flows.RunStatusFailed || r.Status() == flows.RunStatusExpired
		if exited != (r.ExitedOn() != nil) {
			return fmt.Sprintf("%s: run %s in flow %s has status %q but exited_on set = %v", when, r.UUID(), r.FlowReference().Name, r.Status(), r.ExitedOn() != nil)
		}
		if r.Status() == flows.RunStatusWaiting {
			waiting++
		}
		if st != flows.SessionStatusWaiting && (r.Status() == flows.RunStatusActive || r.Status() == flows.RunStatusWaiting) {
			return fmt.Sprintf("%s: session is %q but the run in flow %s is still %q", when, st, r.FlowReference().Name, r.Status())
		}
		steps := map[flows.StepUUID]bool{}
		for _, s := range r.Path() {
			steps[s.UUID()] = true
		}
		newEvents := map[flows.Event]bool{}
		for _, e := range sprint.Events() {
			newEvents[e] = true
		}
		for _, e := range r.Events() {
			if newEvents[e] && e.StepUUID() != "" && !steps[e.StepUUID()] {
				return fmt.Sprintf("%s: the run in flow %s (path of %d steps) recorded a %s event naming step %s, which is not a step of that run", when, r.FlowReference().Name, len(r.Path()), e.Type(), e.StepUUID())
			}
		}
	}
	if (st == flows.SessionStatusWaiting) != (waiting == 1) {
		return fmt.Sprintf("%s: session status is %q with %d waiting runs", when, st, waiting)
	}
	return ""
}

func TestGocvReplayStateMachine(t *testing.T) {
	if _, err := os.ReadFile(os.Getenv("GOCV_REPLAY")); err != nil {
		t.Skip("no replay file")
	}
	sa, err := test.CreateSessionAssets([]byte(gocvC01Assets), "")
	if err != nil {
		t.Fatal(err)
	}
	env := envs.NewBuilder().Build()
	for _, flowName := range []string{"Self", "Parent", "Grandparent", "Top"} {
		for _, maxSteps := range []int{3, 5, 8} {
			for _, maxResumes := range []int{2, 4} {
				uuid := map[string]string{"Self": "11111111-1111-4111-8111-111111111111", "Parent": "22222222-2222-4222-8222-222222222222", "Grandparent": "44444444-4444-4444-8444-444444444444", "Top": "77777777-7777-4777-8777-777777777777"}[flowName]
				eng := engine.NewBuilder().WithMaxStepsPerSprint(maxSteps).WithMaxResumesPerSession(maxResumes).Build()
				contact := flows.NewEmptyContact(sa, "Bob", "eng", nil)
				trigger := triggers.NewBuilder(env, assets.NewFlowReference(assets.FlowUUID(uuid), flowName), contact).Manual().Build()
				session, sprint, err := eng.NewSession(sa, trigger)
				if err != nil {
					continue
				}
				cfgs := fmt.Sprintf("flow %q, MaxStepsPerSprint=%d, MaxResumesPerSession=%d", flowName, maxSteps, maxResumes)
				if p := gocvC01Check(session, sprint, "after NewSession ("+cfgs+")"); p != "" {
					fmt.Println("REPLAY: reproduced " + p)
					return
				}
				for i := 0; i < 6 && session.Status() == flows.SessionStatusWaiting; i++ {
					msg := flows.NewMsgIn("2d611e17-fb22-457f-b802-b8f7ec5cda5b", urns.URN("tel:+12065551212"), nil, "hi", nil)
					sp, err := session.Resume(resumes.NewMsg(nil, nil, msg))
					if err != nil {
						break
					}
					if p := gocvC01Check(session, sp, fmt.Sprintf("after resume %d (%s)", i+1, cfgs)); p != "" {
						fmt.Println("REPLAY: reproduced " + p)
						return
					}
				}
			}
		}
	}
	fmt.Println("REPLAY: not-reproduced")
}
