#!/bin/sh
# builds the verifier from files on disk only (offline)
set -e
export GOFLAGS=-mod=mod GOPROXY=off GOSUMDB=off GOTOOLCHAIN=local
cd /verif/gocv
mkdir -p /verif/bin
go build -o /verif/bin/gocv .
