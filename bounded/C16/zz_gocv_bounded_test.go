package migrations_test

// Bounded stand-in for the C16 clauses about legacy sources: "migrating ... yields a definition that loads without error at
// the current version, keeps the flow's UUID, its nodes and how they are connected (entry node first), and is unchanged
// by migrating again" with "rules of one category sharing a destination, as the legacy editor produced". Reading a
// legacy definition (encoding/json + validator, by reflection) and loading the result (definition.ReadFlow validation)
// are outside the VC generator's reach; what contracts decide for this code is only that it does not panic
// (props/C16.json). This driver (injected with `go test -overlay`) builds EVERY legacy flow of the small space below -
// one wait_message ruleset with up to 3 rules plus the catch-all, category names over {A, a, B}, destinations over
// two action sets or none, every vertical order of the three nodes, either kind of node as entry - migrates it with
// the real code and checks the clauses on the result. Labelled bounded: a stand-in, not a proof.

import (
	"fmt"
	"os"
	"sort"
	"strconv"
	"strings"
	"testing"

	"github.com/nyaruka/gocommon/jsonx"
	"github.com/nyaruka/goflow/flows/definition"
	"github.com/nyaruka/goflow/flows/definition/migrations"
)

func TestGocvBoundedLegacy(t *testing.T) {
	if os.Getenv("GOCV_BOUNDED") == "" {
		t.Skip("bounded driver")
	}
	const (
		flowUUID = "50c3706e-fedb-42c0-8eab-dda3335714b7"
		quiz     = "10e483a8-5ffb-4c4f-917b-d43ce86c1d65"
		nodeA    = "5b977652-91e3-48be-8e86-7c8094b4aa8f"
		nodeB    = "833fc698-d590-42dc-93e1-39e701b7e8e4"
		exitA    = "cfcf5cef-49f9-41a6-886b-f466575a3045"
		exitB    = "da3e7eaf-c087-4e80-97b5-0b2e217fcc93"
	)
	ruleUUIDs := []string{"c072ecb5-0686-40ea-8ed3-898dc1349783", "1e7d3ea5-8b4a-4d09-a1f7-c7ab0b4a4f64", "3ffd2bf6-2b7e-4d27-bc4e-0a1b1b8f4f0b"}
	otherUUID := "9d7a3b6c-7d5f-4c8e-9b1a-2f3e4d5c6b7a"
	names := []string{"A", "a", "B"}
	dests := []string{nodeA, nodeB, ""}
	maxRules := 2
	if os.Getenv("GOCV_BOUNDED_TIER") == "thorough" {
		maxRules = 3
	}
	type rule struct{ name, dest string }
	cases := 0
	counts := map[string]int{}
	fail := func(class, input, detail string) {
		counts[class]++
		if counts[class] <= 5 {
			fmt.Printf("BOUNDED-FAIL class=%s input=%s detail=%s\n", class, strconv.Quote(input), detail)
		}
	}
	actionSet := func(uuid, exitUUID string, y int) map[string]any {
		return map[string]any{"uuid": uuid, "x": 100, "y": y, "destination": nil, "exit_uuid": exitUUID,
			"actions": []any{map[string]any{"type": "reply", "uuid": exitUUID[:35] + "0", "msg": map[string]string{"eng": "Thanks"}}}}
	}
	var rulesets [][]rule
	var gen func(cur []rule)
	gen = func(cur []rule) {
		if len(cur) > 0 {
			rulesets = append(rulesets, append([]rule(nil), cur...))
		}
		if len(cur) == maxRules {
			return
		}
		for _, n := range names {
			for _, d := range dests {
				// the property's precondition: rules of one category (same name) share a destination
				okPre := true
				for _, r := range cur {
					if r.name == n && r.dest != d {
						okPre = false
					}
				}
				if okPre {
					gen(append(cur, rule{n, d}))
				}
			}
		}
	}
	gen(nil)
	// vertical positions: every order of (quiz, nodeA, nodeB)
	orders := [][3]int{{0, 200, 400}, {0, 400, 200}, {200, 0, 400}, {400, 0, 200}, {200, 400, 0}, {400, 200, 0}}
	for _, rs := range rulesets {
		for _, ys := range orders {
			for _, entry := range []string{quiz, nodeA} {
				for _, otherDest := range []string{"", nodeB} {
					cases++
					type edge struct{ exit, from, to string }
					var expected []edge
					seen := map[string]bool{}
					var legacyRules []any
					for i, r := range rs {
						var dest any
						if r.dest != "" {
							dest = r.dest
						}
						legacyRules = append(legacyRules, map[string]any{"uuid": ruleUUIDs[i], "test": map[string]any{"type": "contains_any", "test": map[string]string{"eng": fmt.Sprintf("w%d", i)}},
							"category": map[string]string{"eng": r.name}, "destination": dest, "destination_type": "A"})
						if !seen[r.name] {
							expected = append(expected, edge{ruleUUIDs[i], quiz, r.dest})
							seen[r.name] = true
						}
					}
					var od any
					if otherDest != "" {
						od = otherDest
					}
					legacyRules = append(legacyRules, map[string]any{"uuid": otherUUID, "test": map[string]any{"type": "true"}, "category": map[string]string{"eng": "Other"}, "destination": od, "destination_type": "A"})
					expected = append(expected, edge{otherUUID, quiz, otherDest}, edge{exitA, nodeA, ""}, edge{exitB, nodeB, ""})
					input := fmt.Sprintf("rules=%v other->%q y(quiz,A,B)=%v entry=%s", rs, otherDest, ys, map[string]string{quiz: "ruleset", nodeA: "actionset A"}[entry])
					legacyDef := jsonx.MustMarshal(map[string]any{
						"base_language": "eng", "entry": entry, "flow_type": "F", "version": 11,
						"rule_sets": []any{map[string]any{"uuid": quiz, "x": 100, "y": ys[0], "ruleset_type": "wait_message", "label": "Answer", "operand": "@step.value",
							"finished_key": nil, "response_type": "", "config": map[string]any{}, "rules": legacyRules}},
						"action_sets": []any{actionSet(nodeA, exitA, ys[1]), actionSet(nodeB, exitB, ys[2])},
						"metadata":    map[string]any{"uuid": flowUUID, "name": "Quiz", "revision": 1},
					})
					migrated, err := migrations.MigrateToLatest(legacyDef, migrations.DefaultConfig)
					if err != nil {
						fail("migration_error", input, err.Error())
						continue
					}
					flow, err := definition.ReadFlow(migrated, nil)
					if err != nil {
						fail("result_does_not_load", input, err.Error())
						continue
					}
					if string(flow.UUID()) != flowUUID {
						fail("flow_uuid_changed", input, string(flow.UUID()))
					}
					if len(flow.Nodes()) != 3 {
						fail("node_count_changed", input, fmt.Sprintf("%d nodes", len(flow.Nodes())))
						continue
					}
					if string(flow.Nodes()[0].UUID()) != entry {
						fail("entry_node_not_first", input, fmt.Sprintf("first node is %s, entry is %s", flow.Nodes()[0].UUID(), entry))
					}
					var got []edge
					for _, n := range flow.Nodes() {
						for _, e := range n.Exits() {
							got = append(got, edge{string(e.UUID()), string(n.UUID()), string(e.DestinationUUID())})
						}
					}
					key := func(es []edge) string {
						var ss []string
						for _, e := range es {
							ss = append(ss, e.exit+">"+e.from+">"+e.to)
						}
						sort.Strings(ss)
						return strings.Join(ss, " ")
					}
					if key(got) != key(expected) {
						fail("connections_changed", input, fmt.Sprintf("exits (exit>node>destination) are %s, the legacy rules imply %s", key(got), key(expected)))
					}
					again, err := migrations.MigrateToLatest(migrated, migrations.DefaultConfig)
					if err != nil || string(again) != string(migrated) {
						fail("second_migration_changes_it", input, fmt.Sprint(err))
					}
				}
			}
		}
	}
	for class, n := range counts {
		fmt.Printf("BOUNDED-COUNT class=%s n=%d\n", class, n)
	}
	fmt.Printf("BOUNDED: cases=%d bound=%d rule lists (up to %d rules over 3 names x 3 destinations, same name => same destination) x 6 vertical orders x 2 entries x 2 catch-all destinations\n", cases, len(rulesets), maxRules)
}
