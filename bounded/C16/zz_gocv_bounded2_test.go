package migrations_test

// Bounded stand-in for the C16 clause "expression rewrites done by migrations preserve what each template evaluates to"
// for "@webhook references in any template position" (the 13.3 migration: @webhook -> @webhook.json). The rewrite walks
// generic JSON by catalog paths (utils/jsonpath) and re-serializes expressions through the ANTLR parser, outside the
// VC generator's reach. This driver (injected with `go test -overlay`) puts EVERY template of the list below into
// EVERY template position of a 13.2 flow (one at a time), migrates it to 13.3 with the real code and compares the
// string found at that position with the oracle: every @webhook reference outside a broken expression is renamed to
// @webhook.json, everything else is untouched. Labelled bounded: a stand-in, not a proof.

import (
	"encoding/json"
	"fmt"
	"os"
	"strconv"
	"testing"

	"github.com/Masterminds/semver"
	"github.com/nyaruka/goflow/flows/definition/migrations"
)

func TestGocvBoundedWebhookRewrite(t *testing.T) {
	if os.Getenv("GOCV_BOUNDED") == "" {
		t.Skip("bounded driver")
	}
	templates := [][2]string{
		{"no references", "no references"},
		{"@webhook", "@webhook.json"},
		{"Bearer @webhook.token", "Bearer @webhook.json.token"},
		{"@(webhook.token)", "@(webhook.json.token)"},
		{"@(upper(webhook.a) & webhook.b)", "@(upper(webhook.json.a) & webhook.json.b)"},
		{"@contact.name owes @webhook.amount", "@contact.name owes @webhook.json.amount"},
		{"Hi @(webhook.amount * ) you owe @webhook.x", "Hi @(webhook.amount * ) you owe @webhook.json.x"},
		// "@@" is an escaped "@"; "bob@webhook.com" IS the reference webhook.com after the text "bob" (the scanner does not look behind the "@")
		{"@@webhook stays, bob@webhook.com is a reference", "@@webhook stays, bob@webhook.json.com is a reference"},
		{"@@webhook and bob@example.com stay", "@@webhook and bob@example.com stay"},
	}
	type position struct {
		name string
		set  func(f map[string]any, s string)
		get  func(f map[string]any) any
	}
	node := func(f map[string]any) map[string]any { return f["nodes"].([]any)[0].(map[string]any) }
	action := func(f map[string]any, i int) map[string]any { return node(f)["actions"].([]any)[i].(map[string]any) }
	router := func(f map[string]any) map[string]any { return node(f)["router"].(map[string]any) }
	loc := func(f map[string]any, uuid string) map[string]any {
		return f["localization"].(map[string]any)["spa"].(map[string]any)[uuid].(map[string]any)
	}
	first := func(v any) any { return v.([]any)[0] }
	positions := []position{
		{"send_msg.text", func(f map[string]any, s string) { action(f, 0)["text"] = s }, func(f map[string]any) any { return action(f, 0)["text"] }},
		{"send_msg.attachments[0]", func(f map[string]any, s string) { action(f, 0)["attachments"] = []any{s} }, func(f map[string]any) any { return first(action(f, 0)["attachments"]) }},
		{"send_msg.quick_replies[0]", func(f map[string]any, s string) { action(f, 0)["quick_replies"] = []any{s} }, func(f map[string]any) any { return first(action(f, 0)["quick_replies"]) }},
		{"call_webhook.url", func(f map[string]any, s string) { action(f, 1)["url"] = s }, func(f map[string]any) any { return action(f, 1)["url"] }},
		{"call_webhook.body", func(f map[string]any, s string) { action(f, 1)["body"] = s }, func(f map[string]any) any { return action(f, 1)["body"] }},
		{"call_webhook.headers.Authorization", func(f map[string]any, s string) { action(f, 1)["headers"] = map[string]any{"Authorization": s} }, func(f map[string]any) any { return action(f, 1)["headers"].(map[string]any)["Authorization"] }},
		{"set_run_result.value", func(f map[string]any, s string) { action(f, 2)["value"] = s }, func(f map[string]any) any { return action(f, 2)["value"] }},
		{"set_contact_name.name", func(f map[string]any, s string) { action(f, 3)["name"] = s }, func(f map[string]any) any { return action(f, 3)["name"] }},
		{"router.operand", func(f map[string]any, s string) { router(f)["operand"] = s }, func(f map[string]any) any { return router(f)["operand"] }},
		{"router.cases[0].arguments[0]", func(f map[string]any, s string) { first(router(f)["cases"]).(map[string]any)["arguments"] = []any{s} }, func(f map[string]any) any { return first(first(router(f)["cases"]).(map[string]any)["arguments"]) }},
		{"localization.spa.send_msg.text[0]", func(f map[string]any, s string) { loc(f, "a1a1a1a1-1111-4111-8111-111111111111")["text"] = []any{s} }, func(f map[string]any) any { return first(loc(f, "a1a1a1a1-1111-4111-8111-111111111111")["text"]) }},
		{"localization.spa.case.arguments[0]", func(f map[string]any, s string) { loc(f, "c1c1c1c1-1111-4111-8111-111111111111")["arguments"] = []any{s} }, func(f map[string]any) any { return first(loc(f, "c1c1c1c1-1111-4111-8111-111111111111")["arguments"]) }},
	}
	const flowJSON = `{
		"uuid": "50c3706e-fedb-42c0-8eab-dda3335714b7", "name": "Rewrite", "spec_version": "13.2.0", "language": "eng", "type": "messaging",
		"localization": {"spa": {"a1a1a1a1-1111-4111-8111-111111111111": {"text": ["hola"]}, "c1c1c1c1-1111-4111-8111-111111111111": {"arguments": ["si"]}}},
		"nodes": [{
			"uuid": "d1d1d1d1-1111-4111-8111-111111111111",
			"actions": [
				{"uuid": "a1a1a1a1-1111-4111-8111-111111111111", "type": "send_msg", "text": "hi"},
				{"uuid": "a2a2a2a2-1111-4111-8111-111111111111", "type": "call_webhook", "method": "POST", "url": "http://example.com", "body": "x", "result_name": "Call"},
				{"uuid": "a3a3a3a3-1111-4111-8111-111111111111", "type": "set_run_result", "name": "Amount", "value": "1", "category": ""},
				{"uuid": "a4a4a4a4-1111-4111-8111-111111111111", "type": "set_contact_name", "name": "Bob"}
			],
			"router": {"type": "switch", "operand": "@input.text", "default_category_uuid": "e2e2e2e2-1111-4111-8111-111111111111",
				"cases": [{"uuid": "c1c1c1c1-1111-4111-8111-111111111111", "type": "has_any_word", "arguments": ["yes"], "category_uuid": "e1e1e1e1-1111-4111-8111-111111111111"}],
				"categories": [{"uuid": "e1e1e1e1-1111-4111-8111-111111111111", "name": "Yes", "exit_uuid": "f1f1f1f1-1111-4111-8111-111111111111"}, {"uuid": "e2e2e2e2-1111-4111-8111-111111111111", "name": "Other", "exit_uuid": "f2f2f2f2-1111-4111-8111-111111111111"}]},
			"exits": [{"uuid": "f1f1f1f1-1111-4111-8111-111111111111"}, {"uuid": "f2f2f2f2-1111-4111-8111-111111111111"}]
		}]
	}`
	cases := 0
	counts := map[string]int{}
	fail := func(class, input, detail string) {
		counts[class]++
		if counts[class] <= 5 {
			fmt.Printf("BOUNDED-FAIL class=%s input=%s detail=%s\n", class, strconv.Quote(input), detail)
		}
	}
	to := semver.MustParse("13.3.0")
	for _, p := range positions {
		for _, tp := range templates {
			cases++
			var f map[string]any
			if err := json.Unmarshal([]byte(flowJSON), &f); err != nil {
				t.Fatal(err)
			}
			p.set(f, tp[0])
			data, _ := json.Marshal(f)
			input := fmt.Sprintf("%s = %q", p.name, tp[0])
			migrated, err := migrations.MigrateToVersion(data, to, migrations.DefaultConfig)
			if err != nil {
				fail("migration_error", input, err.Error())
				continue
			}
			var g map[string]any
			json.Unmarshal(migrated, &g)
			got, _ := p.get(g).(string)
			if got != tp[1] {
				class := "webhook_reference_not_rewritten"
				if tp[0] == tp[1] {
					class = "template_without_reference_changed"
				}
				fail(class, input, fmt.Sprintf("after the 13.3 migration the position holds %q, expected %q", got, tp[1]))
			}
			if g["spec_version"] != "13.3.0" {
				fail("version_not_stamped", input, fmt.Sprint(g["spec_version"]))
			}
		}
	}
	for class, n := range counts {
		fmt.Printf("BOUNDED-COUNT class=%s n=%d\n", class, n)
	}
	fmt.Printf("BOUNDED: cases=%d bound=%d templates x %d template positions of a 13.2 flow, migrated to 13.3\n", cases, len(templates), len(positions))
}
