package excellent_test

// Bounded stand-in for the half of C04 that goes through the ANTLR-generated lexer/parser and its listeners
// ("evaluating any template or expression string never panics and always returns; syntax errors are reported as error
// values"). The generated parser (serialized ATN tables) is outside the VC generator's reach; the hand-written scanner
// is under contract (props/C04.json, shared with C12). This driver (injected with `go test -overlay`) evaluates with
// the real Evaluator, recovering panics and with a deadline per evaluation:
//   (a) EVERY expression string over the alphabet below up to the length bound, inside @( ... );
//   (b) numeric literals of EVERY length 1..maxDigits (integers and decimals with every position of the point);
//   (d) plain text with an '@' followed by EVERY printable ASCII character and a few others (e-mails, mentions, prices);
//   (c) a syntax error after EVERY number 0..maxPrefix of characters of a text literal, for 1-, 2-, 3- and 4-byte scripts.
// Labelled bounded: a stand-in, not a proof.

import (
	"fmt"
	"os"
	"strconv"
	"strings"
	"testing"
	"time"

	"github.com/nyaruka/goflow/envs"
	"github.com/nyaruka/goflow/excellent"
	"github.com/nyaruka/goflow/excellent/types"
)

func TestGocvBoundedParser(t *testing.T) {
	if os.Getenv("GOCV_BOUNDED") == "" {
		t.Skip("bounded driver")
	}
	thorough := os.Getenv("GOCV_BOUNDED_TIER") == "thorough"
	alphabet := []string{"1", ".", "a", "(", ")", `"`, "+", " ", "é", "[", "-", ","}
	maxLen, maxDigits, maxPrefix := 4, 80, 70
	if thorough {
		maxLen = 5
	}
	env := envs.NewBuilder().Build()
	ev := excellent.NewEvaluator()
	ctx := types.NewXObject(map[string]types.XValue{"a": types.NewXText("x")})
	cases := 0
	counts := map[string]int{}
	fail := func(class, input, detail string) {
		counts[class]++
		if counts[class] <= 5 {
			fmt.Printf("BOUNDED-FAIL class=%s input=%s detail=%s\n", class, strconv.Quote(input), detail)
		}
	}
	run := func(family, tpl string) {
		if counts[family+"_does_not_return"] >= 3 {
			return // every further case of a hanging family would wait for the deadline again
		}
		cases++
		done := make(chan string, 1)
		go func() {
			defer func() {
				if r := recover(); r != nil {
					done <- fmt.Sprintf("panic: %v", r)
				}
			}()
			ev.Template(env, ctx, tpl, nil)
			ev.TemplateValue(env, ctx, tpl)
			done <- ""
		}()
		select {
		case r := <-done:
			if r != "" {
				fail(family+"_panics", tpl, r)
			}
		case <-time.After(5 * time.Second):
			fail(family+"_does_not_return", tpl, "no result within 5 seconds")
		}
	}
	// (a)
	var gen func(prefix string, n int)
	gen = func(prefix string, n int) {
		run("short_expression", "@("+prefix+")")
		if n == 0 {
			return
		}
		for _, c := range alphabet {
			gen(prefix+c, n-1)
		}
	}
	gen("", maxLen)
	// (b)
	for n := 1; n <= maxDigits; n++ {
		digits := strings.Repeat("7", n)
		run("numeric_literal", "@("+digits+")")
		run("numeric_literal", "@("+digits+" + 1)")
		for p := 1; p < n; p += max(1, n/8) {
			run("numeric_literal", "@("+digits[:p]+"."+digits[p:]+")")
		}
	}
	// (c)
	for _, ch := range []string{"a", "é", "д", "日", "😀"} {
		for k := 0; k <= maxPrefix; k++ {
			lit := strconv.Quote(strings.Repeat(ch, k))
			for _, tail := range []string{" & )", " & ", ` & "x`, " )) ", " @ 1)"} {
				run("syntax_error", "@("+lit+tail)
				run("syntax_error", "@("+lit+tail+")")
			}
		}
	}
	// (d)
	for c := rune(32); c < 127; c++ {
		for _, tpl := range []string{"see you @" + string(c) + "pm", "@" + string(c), "a@" + string(c) + ".com @a"} {
			run("at_sign_in_text", tpl)
		}
	}
	for _, c := range []string{"é", "日", "😀", "\n", "\t"} {
		run("at_sign_in_text", "see you @"+c+"pm @a")
	}
	for class, n := range counts {
		fmt.Printf("BOUNDED-COUNT class=%s n=%d\n", class, n)
	}
	fmt.Printf("BOUNDED: cases=%d bound=all expressions over %d symbols up to length %d; numeric literals of 1..%d digits; syntax errors after 0..%d characters of 5 scripts; '@' before every printable ASCII character in plain text\n", cases, len(alphabet), maxLen, maxDigits, maxPrefix)
}
