package excellent_test

// Bounded stand-in for the C12 clause "every string value can be written as a quoted, escaped literal that evaluates to
// exactly that string wherever the literal stands in an expression, and the template scanner and the expression parser
// agree on where each expression ends". The scanner half is under contract (see props/C12.json); the other half is the
// ANTLR-generated lexer (serialized ATN tables), outside the VC generator's reach. This driver (injected with
// `go test -overlay`) enumerates EVERY string over the alphabet below up to the length bound and evaluates, with the
// real Evaluator, the literal alone, before another literal and after another literal, inside a template with text
// around it. Labelled bounded: a stand-in, not a proof.

import (
	"fmt"
	"os"
	"strconv"
	"strings"
	"testing"

	"github.com/nyaruka/goflow/envs"
	"github.com/nyaruka/goflow/excellent"
	"github.com/nyaruka/goflow/excellent/types"
)

func TestGocvBoundedLiterals(t *testing.T) {
	if os.Getenv("GOCV_BOUNDED") == "" {
		t.Skip("bounded driver")
	}
	alphabet := []string{"a", `\`, `"`, ")", "(", " ", "@", "&", "é", "\n"}
	maxLen := 4
	if os.Getenv("GOCV_BOUNDED_TIER") == "thorough" {
		maxLen = 5
	}
	env := envs.NewBuilder().Build()
	ev := excellent.NewEvaluator()
	ctx := types.NewXObject(map[string]types.XValue{"foo": types.NewXText("bar")})
	cases := 0
	printed := map[string]int{}
	fail := func(class, tpl, detail string) {
		printed[class]++
		if printed[class] <= 5 {
			fmt.Printf("BOUNDED-FAIL class=%s input=%s detail=%s\n", class, strconv.Quote(tpl), detail)
		}
	}
	var strs []string
	var gen func(prefix string, n int)
	gen = func(prefix string, n int) {
		strs = append(strs, prefix)
		if n == 0 {
			return
		}
		for _, c := range alphabet {
			gen(prefix+c, n-1)
		}
	}
	gen("", maxLen)
	for _, s := range strs {
		q := strconv.Quote(s)
		type tc struct{ kind, tpl, want string }
		for _, c := range []tc{
			{"alone", "<@(" + q + ")> @@", "<" + s + "> @"},
			{"before_literal", "<@(" + q + ` & ")")> @@ @foo`, "<" + s + ")> @ bar"},
			{"after_literal", `<@(")" & ` + q + ")> @@", "<)" + s + "> @"},
		} {
			cases++
			got, _, _ := ev.Template(env, ctx, c.tpl, nil)
			if got == c.want {
				continue
			}
			// classes are defined by the shape of the input, so that a different failure is a different obligation
			class := c.kind
			if c.kind == "before_literal" && strings.HasSuffix(s, `\`) {
				class = "literal_ending_in_backslash_before_another_literal"
			}
			fail(class, c.tpl, fmt.Sprintf("the quoted literal of %q in position '%s' evaluates to %q instead of %q", s, c.kind, got, c.want))
		}
	}
	for class, n := range printed {
		fmt.Printf("BOUNDED-COUNT class=%s n=%d\n", class, n)
	}
	fmt.Printf("BOUNDED: cases=%d bound=all %d strings over %d symbols up to length %d, three positions each\n", cases, len(strs), len(alphabet), maxLen)
}
