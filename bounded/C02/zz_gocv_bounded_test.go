package engine_test

// Bounded stand-in for the C02 clause "resuming the restored session produces the same events, segments and session JSON
// as resuming the session kept in memory; marshal -> read -> marshal is the identity". What contracts decide is the
// representation coherence of session and run (props/C02.json); the value-level symmetry of the codecs of the
// sub-objects (contact, trigger, input, results, events) goes through encoding/json and the validator by reflection,
// outside the VC generator's reach. This driver (injected with `go test -overlay`) runs a two-wait flow with pinned
// clock and UUID sources for EVERY combination of the small scenario space below, once keeping the session object
// alive and once marshalling and re-reading it before each resume, and compares every output. Labelled bounded.

import (
	"fmt"
	"os"
	"strconv"
	"testing"
	"time"

	"github.com/nyaruka/gocommon/dates"
	"github.com/nyaruka/gocommon/i18n"
	"github.com/nyaruka/gocommon/jsonx"
	"github.com/nyaruka/gocommon/urns"
	"github.com/nyaruka/gocommon/uuids"
	"github.com/nyaruka/goflow/assets"
	"github.com/nyaruka/goflow/envs"
	"github.com/nyaruka/goflow/flows"
	"github.com/nyaruka/goflow/flows/resumes"
	"github.com/nyaruka/goflow/flows/triggers"
	"github.com/nyaruka/goflow/test"
)

const gocvC02bAssets = `{"flows": [{"uuid": "1b462ce8-983a-4393-b133-e15a0efdb70c", "name": "Restart", "spec_version": "13.0", "language": "eng", "type": "messaging", "nodes": [{"uuid": "b0000000-0000-4000-8000-000000000001", "actions": [{"type": "enter_flow", "uuid": "b0000000-0000-4000-8000-000000000002", "flow": {"uuid": "e0000000-0000-4000-8000-000000000001", "name": "Empty"}}], "router": {"type": "switch", "operand": "@child.status", "default_category_uuid": "b0000000-0000-4000-8000-000000000003", "categories": [{"uuid": "b0000000-0000-4000-8000-000000000003", "name": "Any", "exit_uuid": "b0000000-0000-4000-8000-000000000004"}], "cases": []}, "exits": [{"uuid": "b0000000-0000-4000-8000-000000000004", "destination_uuid": "46d51f50-58de-49da-8d13-dadbf322685d"}]}, {"uuid": "46d51f50-58de-49da-8d13-dadbf322685d", "router": {"type": "switch", "wait": {"type": "msg"}, "operand": "@input.text", "result_name": "Answer", "default_category_uuid": "8720f157-ca1c-432f-9c0b-2014ddc77094", "categories": [{"uuid": "8720f157-ca1c-432f-9c0b-2014ddc77094", "name": "All", "exit_uuid": "37d8813f-1402-4ad2-9cc2-e9054a96525b"}], "cases": []}, "exits": [{"uuid": "37d8813f-1402-4ad2-9cc2-e9054a96525b", "destination_uuid": "a6666666-6666-4666-8666-666666666666"}]}, {"uuid": "a6666666-6666-4666-8666-666666666666", "actions": [{"type": "set_contact_field", "uuid": "f0000000-0000-4000-8000-000000000002", "field": {"key": "dob", "name": "DOB"}, "value": "01-02-2020 10:30"}, {"type": "open_ticket", "uuid": "ad154980-7bf7-4ab8-8728-545fd6378912", "topic": {"uuid": "472a7a73-96cb-4736-b567-056d987cc5b4", "name": "General"}, "body": "help", "result_name": "Ticket"}, {"type": "send_msg", "uuid": "5ad99f45-3a05-4be7-8d6a-0e0c9d2b1e3f", "text": "Thanks @results.answer.value, last seen @contact.last_seen_on"}], "router": {"type": "switch", "wait": {"type": "msg"}, "operand": "@input.text", "default_category_uuid": "d6666666-6666-4666-8666-666666666666", "categories": [{"uuid": "d6666666-6666-4666-8666-666666666666", "name": "All", "exit_uuid": "c6666666-6666-4666-8666-666666666666"}], "cases": []}, "exits": [{"uuid": "c6666666-6666-4666-8666-666666666666", "destination_uuid": "f0000000-0000-4000-8000-000000000003"}]}, {"uuid": "f0000000-0000-4000-8000-000000000003", "actions": [{"type": "send_msg", "uuid": "f0000000-0000-4000-8000-000000000004", "text": "born @fields.dob in zone @(tz(fields.dob))"}], "exits": [{"uuid": "f0000000-0000-4000-8000-000000000005"}]}], "localization": {"spa": {"8720f157-ca1c-432f-9c0b-2014ddc77094": {"name": ["Todas las respuestas posibles recibidas hoy mismo"]}, "d6666666-6666-4666-8666-666666666666": {"name": ["Todas"]}}}}, {"uuid": "e0000000-0000-4000-8000-000000000001", "name": "Empty", "spec_version": "13.0", "language": "eng", "type": "messaging", "nodes": []}], "topics": [{"uuid": "472a7a73-96cb-4736-b567-056d987cc5b4", "name": "General"}], "fields": [{"uuid": "f0000000-0000-4000-8000-000000000001", "key": "dob", "name": "DOB", "type": "datetime"}]}`

type gocvC02Scenario struct {
	batch   bool
	urn     string
	seen    bool
	lang    i18n.Language
	msgTrig bool
	zone    *time.Location
}

func (sc gocvC02Scenario) String() string {
	return fmt.Sprintf("batch=%v replies-from=%s seen-before=%v contact-language=%q msg-trigger=%v environment-timezone=%s", sc.batch, sc.urn, sc.seen, sc.lang, sc.msgTrig, sc.zone)
}

func gocvC02bRun(sc gocvC02Scenario, restart bool) (out []string, class string) {
	uuids.SetGenerator(uuids.NewSeededGenerator(123456, time.Now))
	dates.SetNowFunc(dates.NewSequentialNow(time.Date(2018, 7, 6, 12, 30, 0, 123456789, time.UTC), time.Second))
	defer uuids.SetGenerator(uuids.DefaultGenerator)
	defer dates.SetNowFunc(time.Now)
	sa, err := test.CreateSessionAssets([]byte(gocvC02bAssets), "")
	if err != nil {
		return nil, "scenario"
	}
	env := envs.NewBuilder().WithAllowedLanguages("eng", "spa").WithTimezone(sc.zone).Build()
	contact := flows.NewEmptyContact(sa, "Bob", sc.lang, nil)
	contact.AddURN(urns.URN("tel:+12065551212"), nil)
	if sc.seen {
		contact.SetLastSeenOn(time.Date(2018, 7, 1, 8, 0, 0, 0, time.UTC))
	}
	ref := assets.NewFlowReference("1b462ce8-983a-4393-b133-e15a0efdb70c", "Restart")
	var trig flows.Trigger
	if sc.msgTrig {
		trig = triggers.NewBuilder(env, ref, contact).Msg(flows.NewMsgIn("1d611e17-fb22-457f-b802-b8f7ec5cda5b", urns.URN(sc.urn), nil, "start", nil)).Build()
	} else {
		mb := triggers.NewBuilder(env, ref, contact).Manual()
		if sc.batch {
			mb = mb.AsBatch()
		}
		trig = mb.Build()
	}
	eng := test.NewEngine()
	session, sprint, err := eng.NewSession(sa, trig)
	if err != nil {
		return nil, "scenario"
	}
	ev, _ := jsonx.Marshal(sprint.Events())
	out = append(out, string(ev))
	for i := 0; i < 2 && session.Status() == flows.SessionStatusWaiting; i++ {
		if restart {
			data, err := jsonx.Marshal(session)
			if err != nil {
				return out, "marshal_error"
			}
			session, err = eng.ReadSession(sa, data, assets.IgnoreMissing)
			if err != nil {
				out = append(out, "READ ERROR: "+err.Error())
				return out, "restored_session_unreadable"
			}
			again, _ := jsonx.Marshal(session)
			if string(again) != string(data) {
				out = append(out, "REMARSHAL DIFFERS")
				return out, "marshal_read_marshal_differs"
			}
		}
		msg := flows.NewMsgIn("2d611e17-fb22-457f-b802-b8f7ec5cda5b", urns.URN(sc.urn), nil, fmt.Sprintf("reply %d", i), nil)
		sp, err := session.Resume(resumes.NewMsg(nil, nil, msg))
		if err != nil {
			out = append(out, "resume error: "+err.Error())
			break
		}
		ev, _ := jsonx.Marshal(sp.Events())
		seg, _ := jsonx.Marshal(sp.Segments())
		out = append(out, string(ev), string(seg))
	}
	final, _ := jsonx.Marshal(session)
	out = append(out, string(final))
	return out, ""
}

func TestGocvBoundedRestart(t *testing.T) {
	if os.Getenv("GOCV_BOUNDED") == "" {
		t.Skip("bounded driver")
	}
	cases := 0
	counts := map[string]int{}
	fail := func(class string, sc gocvC02Scenario, detail string) {
		counts[class]++
		if counts[class] <= 5 {
			fmt.Printf("BOUNDED-FAIL class=%s input=%s detail=%s\n", class, strconv.Quote(sc.String()), detail)
		}
	}
	kigali, err := time.LoadLocation("Africa/Kigali")
	if err != nil {
		t.Fatal(err)
	}
	zones := []*time.Location{time.UTC, kigali}
	for _, batch := range []bool{false, true} {
		for _, urn := range []string{"tel:+12065551212", "mailto:Ben.Haggerty@Example.com", "tel:+12065551212?channel=57f1078f-88aa-46f4-a59a-948a5739c03d"} {
			for _, seen := range []bool{false, true} {
				for _, lang := range []i18n.Language{"eng", "spa", ""} {
					for _, msgTrig := range []bool{false, true} {
						for _, zone := range zones {
							sc := gocvC02Scenario{batch, urn, seen, lang, msgTrig, zone}
							cases++
							live, c1 := gocvC02bRun(sc, false)
							restored, c2 := gocvC02bRun(sc, true)
							if c1 == "scenario" || c2 == "scenario" {
								fail("scenario_does_not_run", sc, "the driver's scenario no longer starts")
								continue
							}
							if c2 != "" {
								fail(c2, sc, restored[len(restored)-1])
								continue
							}
							for i := range live {
								if i >= len(restored) || live[i] != restored[i] {
									a, b := live[i], ""
									if i < len(restored) {
										b = restored[i]
									}
									k := 0
									for k < len(a) && k < len(b) && a[k] == b[k] {
										k++
									}
									lo := max(0, k-60)
									class := "events_or_segments_differ"
									if i == len(live)-1 {
										class = "final_session_json_differs"
									}
									fail(class, sc, fmt.Sprintf("output %d differs: live ...%s... restored ...%s...", i, strconv.Quote(a[lo:min(len(a), k+80)]), strconv.Quote(b[lo:min(len(b), k+80)])))
									break
								}
							}
						}
					}
				}
			}
		}
	}
	for class, n := range counts {
		fmt.Printf("BOUNDED-COUNT class=%s n=%d\n", class, n)
	}
	fmt.Printf("BOUNDED: cases=%d bound=two-wait flow, 2 batch x 3 reply URN forms x 2 seen-before x 3 contact languages x 2 trigger kinds x 2 environment timezones, restart before every resume\n", cases)
}
