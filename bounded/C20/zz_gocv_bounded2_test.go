package engine_test

// Bounded stand-in for the C20 dependencies clause ("every fixed (non-expression) asset a run's actions touch - groups,
// labels, fields, flows, ... - is listed as a dependency"). Dependency extraction walks the action structs by
// reflection (flows/inspect), outside the VC generator's reach. This driver (injected with `go test -overlay`) builds,
// for EVERY action type below and EVERY list of up to 3 references mixing fixed and expression-based ones, a one-node
// flow, inspects it with the real code and requires every fixed reference of the definition among the dependencies
// (and no expression-based one). Labelled bounded: a stand-in, not a proof.

import (
	"encoding/json"
	"fmt"
	"os"
	"strconv"
	"testing"

	"github.com/nyaruka/goflow/test"
)

func TestGocvBoundedDependencies(t *testing.T) {
	if os.Getenv("GOCV_BOUNDED") == "" {
		t.Skip("bounded driver")
	}
	type ref struct {
		json  string // the reference as it stands in the definition
		ident string // "" for an expression-based reference
	}
	groups := []ref{
		{`{"uuid": "b7cf0d83-f1c9-411c-96fd-c511a4cfa86d", "name": "Testers"}`, "b7cf0d83-f1c9-411c-96fd-c511a4cfa86d"},
		{`{"uuid": "1e1ce1e1-9288-4504-869e-022d1003c72a", "name": "Customers"}`, "1e1ce1e1-9288-4504-869e-022d1003c72a"},
		{`{"name_match": "@fields.team"}`, ""},
	}
	labels := []ref{
		{`{"uuid": "3f65d88a-95dc-4140-9451-943e94e06fea", "name": "Spam"}`, "3f65d88a-95dc-4140-9451-943e94e06fea"},
		{`{"uuid": "4a2b1c3d-95dc-4140-9451-943e94e06feb", "name": "Important"}`, "4a2b1c3d-95dc-4140-9451-943e94e06feb"},
		{`{"name_match": "@fields.team"}`, ""},
	}
	type kind struct {
		name, depType string
		refs          []ref
		action        func(list string) string
	}
	kinds := []kind{
		{"add_contact_groups.groups", "group", groups, func(l string) string {
			return `{"uuid": "2d3e4f5a-6b7c-4d8e-9f9a-0b1c2d3e4f23", "type": "add_contact_groups", "groups": ` + l + `}`
		}},
		{"remove_contact_groups.groups", "group", groups, func(l string) string {
			return `{"uuid": "2d3e4f5a-6b7c-4d8e-9f9a-0b1c2d3e4f23", "type": "remove_contact_groups", "groups": ` + l + `, "all_groups": false}`
		}},
		{"send_broadcast.groups", "group", groups, func(l string) string {
			return `{"uuid": "2d3e4f5a-6b7c-4d8e-9f9a-0b1c2d3e4f23", "type": "send_broadcast", "text": "hi", "groups": ` + l + `}`
		}},
		{"start_session.groups", "group", groups, func(l string) string {
			return `{"uuid": "2d3e4f5a-6b7c-4d8e-9f9a-0b1c2d3e4f23", "type": "start_session", "flow": {"uuid": "7c0d1e2f-3a4b-4c5d-8e6f-7a8b9c0d1e20", "name": "Deps"}, "groups": ` + l + `}`
		}},
		{"add_input_labels.labels", "label", labels, func(l string) string {
			return `{"uuid": "2d3e4f5a-6b7c-4d8e-9f9a-0b1c2d3e4f23", "type": "add_input_labels", "labels": ` + l + `}`
		}},
	}
	cases := 0
	counts := map[string]int{}
	fail := func(class, input, detail string) {
		counts[class]++
		if counts[class] <= 5 {
			fmt.Printf("BOUNDED-FAIL class=%s input=%s detail=%s\n", class, strconv.Quote(input), detail)
		}
	}
	for _, k := range kinds {
		var lists [][]ref
		var gen func(cur []ref)
		gen = func(cur []ref) {
			if len(cur) > 0 {
				lists = append(lists, append([]ref(nil), cur...))
			}
			if len(cur) == 3 {
				return
			}
			for _, r := range k.refs {
				gen(append(cur, r))
			}
		}
		gen(nil)
		for _, l := range lists {
			cases++
			js := "["
			for i, r := range l {
				if i > 0 {
					js += ", "
				}
				js += r.json
			}
			js += "]"
			input := k.name + " = " + js
			assetsJSON := `{"fields": [{"uuid": "d66a7823-eada-40e5-9a3a-57239d4690bf", "key": "team", "name": "Team", "type": "text"}],
				"groups": [{"uuid": "b7cf0d83-f1c9-411c-96fd-c511a4cfa86d", "name": "Testers"}, {"uuid": "1e1ce1e1-9288-4504-869e-022d1003c72a", "name": "Customers"}],
				"labels": [{"uuid": "3f65d88a-95dc-4140-9451-943e94e06fea", "name": "Spam"}, {"uuid": "4a2b1c3d-95dc-4140-9451-943e94e06feb", "name": "Important"}],
				"flows": [{"uuid": "7c0d1e2f-3a4b-4c5d-8e6f-7a8b9c0d1e20", "name": "Deps", "spec_version": "13.6.0", "language": "eng", "type": "messaging",
					"nodes": [{"uuid": "0b1c2d3e-4f5a-4b6c-9d7e-8f9a0b1c2d21", "actions": [` + k.action(js) + `], "exits": [{"uuid": "3e4f5a6b-7c8d-4e9f-8a0b-1c2d3e4f5a24"}]}]}]}`
			if !json.Valid([]byte(assetsJSON)) {
				t.Fatalf("driver built invalid JSON for %s", input)
			}
			sa, err := test.CreateSessionAssets([]byte(assetsJSON), "")
			if err != nil {
				fail("scenario_does_not_load", input, err.Error())
				continue
			}
			flow, err := sa.Flows().Get("7c0d1e2f-3a4b-4c5d-8e6f-7a8b9c0d1e20")
			if err != nil {
				fail("scenario_does_not_load", input, err.Error())
				continue
			}
			deps := map[string]bool{}
			for _, d := range flow.Inspect(sa).Dependencies {
				deps[d.Type()+":"+d.Reference().Identity()] = true
			}
			for _, r := range l {
				if r.ident != "" && !deps[k.depType+":"+r.ident] {
					fail("fixed_reference_not_listed", input, fmt.Sprintf("%s %s is referenced by UUID but is not among the dependencies %v", k.depType, r.ident, deps))
					break
				}
			}
		}
	}
	// templates: an expression in a template position - base text or a translation, of a field that is set or left unset in
	// the base language - references a field / global that must be listed
	type tpos struct{ name, base, loc string }
	for _, tp := range []tpos{
		{"send_msg.text", `"text": "hi %s"`, `"text": ["hola %s"]`},
		{"send_msg.quick_replies", `"text": "hi", "quick_replies": ["%s"]`, `"quick_replies": ["%s"]`},
		{"send_msg.attachments", `"text": "hi", "attachments": ["image:%s"]`, `"attachments": ["image:%s"]`},
	} {
		for _, ref := range [][2]string{{"@globals.org_name", "global:org_name"}, {"@fields.team", "field:team"}} {
			for _, where := range []string{"base", "translation_base_set", "translation_base_unset"} {
				cases++
				base, loc := fmt.Sprintf(tp.base, "x"), ""
				switch where {
				case "base":
					base = fmt.Sprintf(tp.base, ref[0])
				case "translation_base_set":
					loc = fmt.Sprintf(tp.loc, ref[0])
				case "translation_base_unset":
					if tp.name == "send_msg.text" {
						continue // the text of a message is required
					}
					base = `"text": "hi"`
					loc = fmt.Sprintf(tp.loc, ref[0])
				}
				localization := "{}"
				if loc != "" {
					localization = `{"spa": {"2d3e4f5a-6b7c-4d8e-9f9a-0b1c2d3e4f23": {` + loc + `}}}`
				}
				input := fmt.Sprintf("%s: reference %s in the %s", tp.name, ref[0], where)
				assetsJSON := `{"fields": [{"uuid": "d66a7823-eada-40e5-9a3a-57239d4690bf", "key": "team", "name": "Team", "type": "text"}],
					"globals": [{"key": "org_name", "name": "Org Name", "value": "Nyaruka"}],
					"flows": [{"uuid": "7c0d1e2f-3a4b-4c5d-8e6f-7a8b9c0d1e20", "name": "Deps", "spec_version": "13.6.0", "language": "eng", "type": "messaging", "localization": ` + localization + `,
						"nodes": [{"uuid": "0b1c2d3e-4f5a-4b6c-9d7e-8f9a0b1c2d21", "actions": [{"uuid": "2d3e4f5a-6b7c-4d8e-9f9a-0b1c2d3e4f23", "type": "send_msg", ` + base + `}], "exits": [{"uuid": "3e4f5a6b-7c8d-4e9f-8a0b-1c2d3e4f5a24"}]}]}]}`
				if !json.Valid([]byte(assetsJSON)) {
					t.Fatalf("driver built invalid JSON for %s", input)
				}
				sa, err := test.CreateSessionAssets([]byte(assetsJSON), "")
				if err != nil {
					fail("scenario_does_not_load", input, err.Error())
					continue
				}
				flow, err := sa.Flows().Get("7c0d1e2f-3a4b-4c5d-8e6f-7a8b9c0d1e20")
				if err != nil {
					fail("scenario_does_not_load", input, err.Error())
					continue
				}
				deps := map[string]bool{}
				for _, d := range flow.Inspect(sa).Dependencies {
					deps[d.Type()+":"+d.Reference().Identity()] = true
				}
				if !deps[ref[1]] {
					fail("template_reference_not_listed", input, fmt.Sprintf("%s is referenced by a template but is not among the dependencies %v", ref[1], deps))
				}
			}
		}
	}
	for class, n := range counts {
		fmt.Printf("BOUNDED-COUNT class=%s n=%d\n", class, n)
	}
	fmt.Printf("BOUNDED: cases=%d bound=5 reference-list positions x every list of 1..3 references over 2 fixed + 1 expression-based; field / global references in 3 template positions, in the base text or a translation of a set or unset field\n", cases)
}
