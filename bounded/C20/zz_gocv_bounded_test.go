package flows_test

// Bounded stand-in for flows.NewResultSpecs (C20, results clause: "every result any run of the flow saves appears in the
// inspection's results under the same key, its category among the listed ones"). The function is inside the VC
// generator's subset, but its invariants are for-all/exists over slices that grow by append and none of the three
// solvers finds the witnesses (attempt kept in /verif/notes/C20_NewResultSpecs_attempt.go.txt). This driver (injected
// with `go test -overlay`) calls the real function on EVERY sequence of up to maxLen extracted results drawn from the
// small universe below and checks the clause on each. Labelled bounded: a stand-in, not a proof.

import (
	"fmt"
	"os"
	"strconv"
	"strings"
	"testing"

	"github.com/nyaruka/goflow/flows"
)

type gocvNode struct {
	flows.Node
	uuid flows.NodeUUID
}

func (n *gocvNode) UUID() flows.NodeUUID { return n.uuid }

func TestGocvBoundedResultSpecs(t *testing.T) {
	if os.Getenv("GOCV_BOUNDED") == "" {
		t.Skip("bounded driver")
	}
	maxLen := 3
	if os.Getenv("GOCV_BOUNDED_TIER") == "thorough" {
		maxLen = 4
	}
	nodes := []*gocvNode{{uuid: "n1"}, {uuid: "n2"}}
	names := []string{"Color", "color", "Age"} // the first two share a key
	catSets := [][]string{nil, {"Red"}, {"red", "Blue"}, {"Other"}}
	type item struct {
		node *gocvNode
		name string
		cats []string
	}
	var universe []item
	for _, n := range nodes {
		for _, nm := range names {
			for _, cs := range catSets {
				universe = append(universe, item{n, nm, cs})
			}
		}
	}
	cases := 0
	counts := map[string]int{}
	fail := func(class string, seq []item, detail string) {
		counts[class]++
		if counts[class] <= 5 {
			var parts []string
			for _, it := range seq {
				parts = append(parts, fmt.Sprintf("%s/%s%v", it.node.uuid, it.name, it.cats))
			}
			fmt.Printf("BOUNDED-FAIL class=%s input=%s detail=%s\n", class, strconv.Quote(strings.Join(parts, " ")), detail)
		}
	}
	var rec func(seq []item)
	rec = func(seq []item) {
		if len(seq) > 0 {
			cases++
			var in []flows.ExtractedResult
			for _, it := range seq {
				// categories are copied: the function may append to the slice it is given
				in = append(in, flows.ExtractedResult{Node: it.node, Info: flows.NewResultInfo(it.name, append([]string(nil), it.cats...))})
			}
			specs := flows.NewResultSpecs(in)
			for _, it := range seq {
				key := flows.NewResultInfo(it.name, nil).Key
				var spec *flows.ResultSpec
				n := 0
				for _, s := range specs {
					if s.Key == key {
						spec = s
						n++
					}
				}
				sameNode := false
				for _, o := range seq {
					if o.node == it.node && &o != &it {
						sameNode = true
					}
				}
				_ = sameNode
				switch {
				case spec == nil:
					fail("key_not_listed", seq, fmt.Sprintf("no spec with key %q", key))
				case n != 1:
					fail("key_listed_twice", seq, fmt.Sprintf("%d specs with key %q", n, key))
				default:
					for _, c := range it.cats {
						found := false
						for _, sc := range spec.Categories {
							if strings.EqualFold(sc, c) {
								found = true
							}
						}
						if !found {
							fail("category_not_listed", seq, fmt.Sprintf("category %q of a result with key %q on node %s is not among the listed %v", c, key, it.node.uuid, spec.Categories))
						}
					}
					hasNode := false
					for _, u := range spec.NodeUUIDs {
						if u == string(it.node.uuid) {
							hasNode = true
						}
					}
					if !hasNode {
						fail("node_not_listed", seq, fmt.Sprintf("node %s not among the nodes %v of key %q", it.node.uuid, spec.NodeUUIDs, key))
					}
				}
			}
		}
		if len(seq) == maxLen {
			return
		}
		for _, it := range universe {
			rec(append(seq[:len(seq):len(seq)], it))
		}
	}
	rec(nil)
	for class, n := range counts {
		fmt.Printf("BOUNDED-COUNT class=%s n=%d\n", class, n)
	}
	fmt.Printf("BOUNDED: cases=%d bound=all sequences of 1..%d results over %d (node, name, categories) combinations\n", cases, maxLen, len(universe))
}
