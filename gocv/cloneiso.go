package main

// Ownership condition of a Clone function (C02): the live session holds two contacts - the trigger's and its clone,
// the session contact - that share whatever Clone copies by reference; a restored session holds two separate
// objects. The two are the same session only as long as nothing is ever written through a shared reference.
// For the struct and its Clone function the check derives, from the SSA of Clone on every run, which fields are
// copied by reference (the stored value is the load of the same field of the receiver and the field is a pointer,
// slice, map or interface), and requires for each of them one of
//   - pointee is a struct type of the module: every store to a field of that type, anywhere in the module, is to an
//     object allocated in the storing function (initialisation), i.e. the objects are immutable once published;
//   - pointee is any other type (time.Time, ...): no function of the module stores through, or calls a
//     pointer-receiver method on, a pointer loaded from that field;
//   - the field is declared immutable in the configuration with a reason (assets, *time.Location: external values
//     with no mutating API in use) - listed as an assumption.
// Fields copied through a call (urns.clone(), ...) are one level deep: their element types are checked the same way
// when listed under "elements".

import (
	"encoding/json"
	"fmt"
	"go/types"
	"sort"
	"strings"

	"golang.org/x/tools/go/ssa"
)

type cloneIsoArgs struct {
	Struct    string            `json:"struct"`
	Clone     string            `json:"clone"`
	Immutable map[string]string `json:"immutable"` // field -> reason (assumption)
	Elements  map[string][]string `json:"elements"` // field copied through a call -> element struct type that stays shared
	AllowIn   []string          `json:"allow_in"`  // functions that may initialise shared struct types on non-fresh objects (readers filling an envelope-free struct)
}

func derefNamedStruct(t types.Type) (*types.Named, bool) {
	if p, ok := t.Underlying().(*types.Pointer); ok {
		t = p.Elem()
	}
	n, ok := types.Unalias(t).(*types.Named)
	if !ok {
		return nil, false
	}
	_, isS := n.Underlying().(*types.Struct)
	return n, isS
}

// storesToStructNotFresh: all stores in the module to fields of struct type n whose target object is not fresh in the
// storing function
func (v *Verifier) storesToStructNotFresh(n *types.Named, allowIn []string) (bad []string, count int) {
	for _, fn := range v.moduleFunctions(false) {
		for _, b := range fn.Blocks {
			for _, in := range b.Instrs {
				st, ok := in.(*ssa.Store)
				if !ok {
					continue
				}
				fa, ok := st.Addr.(*ssa.FieldAddr)
				if !ok {
					continue
				}
				pt, ok := fa.X.Type().Underlying().(*types.Pointer)
				if !ok || !types.Identical(pt.Elem(), n) {
					continue
				}
				count++
				if freshValue(fa.X, map[ssa.Value]bool{}) {
					continue
				}
				if matchAny(shortKey(fn), allowIn) {
					continue
				}
				fname := n.Underlying().(*types.Struct).Field(fa.Field).Name()
				bad = append(bad, fmt.Sprintf("%s writes %s.%s of an object it did not allocate (%s)", shortKey(fn), n.Obj().Name(), fname, v.prog.Fset.Position(st.Pos())))
			}
		}
	}
	return
}

// rootsAtFieldLoad: addr is derived (through field / index addressing and pointer copies) from a load of field
// `field` of struct type structT
func rootsAtFieldLoad(addr ssa.Value, structT types.Type, field int, depth int) bool {
	if depth > 8 {
		return false
	}
	switch x := addr.(type) {
	case *ssa.UnOp:
		if fa, ok := x.X.(*ssa.FieldAddr); ok {
			if pt, ok := fa.X.Type().Underlying().(*types.Pointer); ok && types.Identical(pt.Elem(), structT) && fa.Field == field {
				return true
			}
		}
		return false
	case *ssa.FieldAddr:
		return rootsAtFieldLoad(x.X, structT, field, depth+1)
	case *ssa.IndexAddr:
		return rootsAtFieldLoad(x.X, structT, field, depth+1)
	case *ssa.ChangeType:
		return rootsAtFieldLoad(x.X, structT, field, depth+1)
	case *ssa.Phi:
		for _, e := range x.Edges {
			if rootsAtFieldLoad(e, structT, field, depth+1) {
				return true
			}
		}
	case *ssa.Call:
		// a getter that returns the field: x.Getter() where the callee's body is `return recv.field`
		if sc := x.Call.StaticCallee(); sc != nil && len(sc.Blocks) == 1 && len(x.Call.Args) == 1 {
			for _, in := range sc.Blocks[0].Instrs {
				if r, ok := in.(*ssa.Return); ok && len(r.Results) == 1 {
					return rootsAtFieldLoad(r.Results[0], structT, field, depth+1)
				}
			}
		}
	}
	return false
}

func (v *Verifier) cloneIsolation(cfg PropConfig, sc StructuralCheck) []StructResult {
	var a cloneIsoArgs
	if err := json.Unmarshal(sc.Args, &a); err != nil {
		engineErr("structural %s: %v", sc.Name, err)
	}
	t, err := v.ResolveType(a.Struct, nil)
	if err != nil {
		engineErr("structural %s: %v", sc.Name, err)
	}
	st, ok := t.Underlying().(*types.Struct)
	if !ok {
		engineErr("structural %s: %s is not a struct", sc.Name, a.Struct)
	}
	clone := v.funcsByKey[modulePath+"/"+a.Clone]
	if clone == nil {
		engineErr("structural %s: function %s not found in /repo (renamed or removed?)", sc.Name, a.Clone)
	}
	// how Clone fills each field of the object it returns
	how := map[int]string{} // "ref" (same reference), "value", "call:<callee>", "other"
	var lit *ssa.Alloc
	for _, b := range clone.Blocks {
		for _, in := range b.Instrs {
			if al, ok := in.(*ssa.Alloc); ok && al.Heap {
				if pt, ok := al.Type().Underlying().(*types.Pointer); ok && types.Identical(pt.Elem(), t) {
					lit = al
				}
			}
		}
	}
	var out []StructResult
	mk := func(field, what string, okV bool, detail string) {
		out = append(out, StructResult{Name: fmt.Sprintf("%s/structural/clone_isolation[%s.%s]", cfg.ID, a.Struct, field), Kind: "ownership", Text: what, Detail: detail, OK: okV})
	}
	if lit == nil {
		mk("*", "Clone builds a new "+a.Struct, false, "no allocation of the struct found in "+a.Clone)
		return out
	}
	for _, b := range clone.Blocks {
		for _, in := range b.Instrs {
			s, ok := in.(*ssa.Store)
			if !ok {
				continue
			}
			fa, ok := s.Addr.(*ssa.FieldAddr)
			if !ok || fa.X != ssa.Value(lit) {
				continue
			}
			ft := st.Field(fa.Field).Type()
			byRef := false
			switch ft.Underlying().(type) {
			case *types.Pointer, *types.Slice, *types.Map, *types.Interface:
				byRef = true
			}
			switch val := s.Val.(type) {
			case *ssa.UnOp:
				if rootsAtFieldLoad(val, t, fa.Field, 0) {
					if byRef {
						how[fa.Field] = "ref"
					} else {
						how[fa.Field] = "value"
					}
				} else {
					how[fa.Field] = "other"
				}
			case *ssa.Call:
				name := "?"
				if c := val.Call.StaticCallee(); c != nil {
					name = c.Name()
				}
				how[fa.Field] = "call:" + name
			default:
				if byRef {
					how[fa.Field] = "other"
				} else {
					how[fa.Field] = "value"
				}
			}
		}
	}
	seen := map[string]bool{}
	for i := 0; i < st.NumFields(); i++ {
		f := st.Field(i)
		seen[f.Name()] = true
		h := how[i]
		if h == "" {
			byRef := false
			switch f.Type().Underlying().(type) {
			case *types.Pointer, *types.Slice, *types.Map, *types.Interface:
				byRef = true
			}
			if byRef {
				h = "unset" // left nil in the clone: nothing shared
			} else {
				h = "value"
			}
		}
		checkShared := func(elemT types.Type, via string) {
			if reason, ok := a.Immutable[f.Name()]; ok {
				mk(f.Name(), fmt.Sprintf("%s.%s is shared between a %s and its clone (%s); declared immutable (assumption): %s", a.Struct, f.Name(), a.Struct, via, reason), true, "declared")
				return
			}
			if n, isS := derefNamedStruct(elemT); isS && n.Obj().Pkg() != nil && isModulePath(n.Obj().Pkg().Path()) {
				bad, cnt := v.storesToStructNotFresh(n, a.AllowIn)
				sort.Strings(bad)
				mk(f.Name()+":"+n.Obj().Name(), fmt.Sprintf("%s.%s is shared between a %s and its clone (%s): objects of type %s are only written while being built", a.Struct, f.Name(), a.Struct, via, n.Obj().Name()),
					len(bad) == 0, fmt.Sprintf("%d field stores scanned; %s", cnt, strings.Join(uniq(bad), "; ")))
				return
			}
			// any other pointee: nothing in the module writes through a pointer loaded from this field
			var bad []string
			nf := 0
			for _, fn := range v.moduleFunctions(false) {
				nf++
				for _, b := range fn.Blocks {
					for _, in := range b.Instrs {
						switch x := in.(type) {
						case *ssa.Store:
							if rootsAtFieldLoad(x.Addr, t, i, 0) {
								bad = append(bad, fmt.Sprintf("%s stores through %s.%s (%s)", shortKey(fn), a.Struct, f.Name(), v.prog.Fset.Position(x.Pos())))
							}
						case *ssa.MapUpdate:
							if rootsAtFieldLoad(x.Map, t, i, 0) {
								bad = append(bad, fmt.Sprintf("%s updates the map in %s.%s (%s)", shortKey(fn), a.Struct, f.Name(), v.prog.Fset.Position(x.Pos())))
							}
						case ssa.CallInstruction:
							cc := x.Common()
							if cc.IsInvoke() || len(cc.Args) == 0 {
								continue
							}
							if c := cc.StaticCallee(); c != nil && c.Signature.Recv() != nil {
								if _, ptrRecv := c.Signature.Recv().Type().Underlying().(*types.Pointer); ptrRecv && rootsAtFieldLoad(cc.Args[0], t, i, 0) && !isModulePkg(pkgOf(c)) {
									if !readOnlyExternalMethod(c) {
										bad = append(bad, fmt.Sprintf("%s calls %s on the shared %s.%s (%s)", shortKey(fn), c.String(), a.Struct, f.Name(), v.prog.Fset.Position(x.Pos())))
									}
								}
							}
						}
					}
				}
			}
			sort.Strings(bad)
			mk(f.Name(), fmt.Sprintf("%s.%s is shared between a %s and its clone (%s): nothing is written through it", a.Struct, f.Name(), a.Struct, via),
				len(bad) == 0 && nf > 0, fmt.Sprintf("%d functions scanned; %s", nf, strings.Join(uniq(bad), "; ")))
		}
		switch {
		case h == "ref":
			et := f.Type()
			checkShared(et, "copied by reference")
		case strings.HasPrefix(h, "call:"):
			if ets, ok := a.Elements[f.Name()]; ok {
				for _, et := range ets {
					ett, err := v.ResolveType(et, nil)
					if err != nil {
						engineErr("structural %s: %v", sc.Name, err)
					}
					checkShared(ett, "elements kept by "+strings.TrimPrefix(h, "call:"))
				}
			} else {
				mk(f.Name(), fmt.Sprintf("%s.%s is copied by %s (one level deep, elements not shared or not listed)", a.Struct, f.Name(), strings.TrimPrefix(h, "call:")), true, "copied through a call")
			}
		case h == "value" || h == "unset":
			mk(f.Name(), fmt.Sprintf("%s.%s is copied by value (%s)", a.Struct, f.Name(), h), true, "nothing shared")
		default:
			mk(f.Name(), fmt.Sprintf("%s.%s: how Clone fills it is understood", a.Struct, f.Name()), false, "the value stored by "+a.Clone+" is neither the receiver's field, a call result nor a value copy")
		}
	}
	var stale []string
	for f := range a.Immutable {
		if !seen[f] {
			stale = append(stale, f)
		}
	}
	for f := range a.Elements {
		if !seen[f] {
			stale = append(stale, f)
		}
	}
	sort.Strings(stale)
	out = append(out, StructResult{Name: fmt.Sprintf("%s/structural/clone_isolation[%s:configuration]", cfg.ID, a.Struct), Kind: "ownership", Text: "the configuration names only existing fields of " + a.Struct,
		Detail: fmt.Sprintf("%d fields; stale entries: %s", st.NumFields(), strings.Join(stale, ", ")), OK: len(stale) == 0})
	return out
}

// readOnlyExternalMethod: pointer-receiver methods of standard-library types that are known not to write their receiver
func readOnlyExternalMethod(c *ssa.Function) bool {
	switch c.String() {
	case "(*time.Location).String":
		return true
	}
	return false
}

// immutableFields: every `immutable T::f` declaration of the contract files (used by the VC generator to keep such
// fields across abstracted calls) is backed by an obligation: every store to the field anywhere in the module is to
// an object allocated in the storing function (its initialisation), or in a function listed under allow_in with
// the reason. Reflection and unsafe writes are outside this analysis (assumption).
func (v *Verifier) immutableFields(cfg PropConfig, sc StructuralCheck) []StructResult {
	var a struct {
		AllowIn map[string]string `json:"allow_in"` // function -> reason
	}
	json.Unmarshal(sc.Args, &a)
	var allow []string
	for k := range a.AllowIn {
		allow = append(allow, k)
	}
	var out []StructResult
	for _, im := range v.immutables {
		spec := im.Spec
		i := strings.Index(spec, "::")
		if i < 0 {
			engineErr("immutable %s: want T::f", spec)
		}
		var pkg *types.Package
		if p, ok := v.allPkgs[im.Pkg]; ok {
			pkg = p.Types
		}
		t, err := v.ResolveType(spec[:i], pkg)
		if err != nil {
			engineErr("immutable %s: %v", spec, err)
		}
		st, ok := t.Underlying().(*types.Struct)
		if !ok {
			engineErr("immutable %s: not a struct", spec)
		}
		fname := spec[i+2:]
		var bad []string
		cnt := 0
		found := fname == "*"
		for _, fn := range v.moduleFunctions(false) {
			for _, b := range fn.Blocks {
				for _, in := range b.Instrs {
					s, ok := in.(*ssa.Store)
					if !ok {
						continue
					}
					fa, ok := s.Addr.(*ssa.FieldAddr)
					if !ok {
						continue
					}
					pt, ok := fa.X.Type().Underlying().(*types.Pointer)
					if !ok || !types.Identical(pt.Elem(), t) {
						continue
					}
					if fname != "*" && st.Field(fa.Field).Name() != fname {
						continue
					}
					cnt++
					if freshValue(fa.X, map[ssa.Value]bool{}) || matchAny(shortKey(fn), allow) {
						continue
					}
					bad = append(bad, fmt.Sprintf("%s writes %s of an object it did not allocate (%s)", shortKey(fn), st.Field(fa.Field).Name(), v.prog.Fset.Position(s.Pos())))
				}
			}
		}
		for k := 0; k < st.NumFields(); k++ {
			if st.Field(k).Name() == fname {
				found = true
			}
		}
		if !found {
			bad = append(bad, "no such field")
		}
		sort.Strings(bad)
		out = append(out, StructResult{Name: fmt.Sprintf("%s/structural/immutable[%s]", cfg.ID, spec), Kind: "ownership",
			Text: fmt.Sprintf("%s is only written while the object is being built (declared `immutable`, relied on across abstracted calls)", spec),
			Detail: fmt.Sprintf("%d stores scanned; %s", cnt, strings.Join(uniq(bad), "; ")), OK: len(bad) == 0})
	}
	if len(out) == 0 {
		out = append(out, StructResult{Name: fmt.Sprintf("%s/structural/immutable[none]", cfg.ID), Kind: "ownership", Text: "immutable declarations exist", Detail: "none declared", OK: false})
	}
	return out
}

// eventLoggedOnce (C01, "every event a run records names a step of that run"): run.LogEvent(step, e) stamps the step
// on the event object itself, so an event object may be logged to one run only. For every call of LogEvent on a run
// (static or through flows.Run) the event value must be made for that call: defined inside every loop the call is in
// (a value made before a loop and logged inside it is one object shared by all iterations), and not handed to a
// second LogEvent call of the same function. A parameter or captured variable (the logEvent callback pattern) moves
// the question to the callers, which create the event - not followed further (assumption).
func (v *Verifier) eventLoggedOnce(cfg PropConfig, sc StructuralCheck) []StructResult {
	var a struct {
		Method string `json:"method"` // LogEvent
		Arg    int    `json:"arg"`    // index of the event among the call's arguments (receiver = 0)
	}
	json.Unmarshal(sc.Args, &a)
	var out []StructResult
	n := 0
	strip := func(x ssa.Value) ssa.Value {
		for {
			switch y := x.(type) {
			case *ssa.MakeInterface:
				x = y.X
			case *ssa.ChangeInterface:
				x = y.X
			case *ssa.ChangeType:
				x = y.X
			default:
				return x
			}
		}
	}
	for _, fn := range v.moduleFunctions(false) {
		if fn.Synthetic != "" {
			continue
		}
		var loops map[*ssa.BasicBlock]*loopInfo
		seenVal := map[ssa.Value]int{}
		k := 0
		for _, b := range fn.Blocks {
			for _, in := range b.Instrs {
				ci, ok := in.(ssa.CallInstruction)
				if !ok {
					continue
				}
				cc := ci.Common()
				var args []ssa.Value
				switch {
				case cc.IsInvoke() && cc.Method.Name() == a.Method:
					if named, ok := types.Unalias(cc.Value.Type()).(*types.Named); !ok || named.Obj().Name() != "Run" {
						continue
					}
					args = append([]ssa.Value{cc.Value}, cc.Args...)
				case cc.StaticCallee() != nil && cc.StaticCallee().Name() == a.Method && cc.StaticCallee().Signature.Recv() != nil && strings.HasSuffix(cc.StaticCallee().Signature.Recv().Type().String(), "runs.run"):
					args = cc.Args
				default:
					continue
				}
				if a.Arg >= len(args) {
					continue
				}
				n++
				k++
				ev := strip(args[a.Arg])
				name := fmt.Sprintf("%s/structural/event_logged_once[%s#%d]", cfg.ID, shortKey(fn), k)
				if shortKey(fn) == "" && fn.Parent() != nil {
					name = fmt.Sprintf("%s/structural/event_logged_once[%s$closure#%d]", cfg.ID, shortKey(fn.Parent()), k)
				}
				text := fmt.Sprintf("the event logged to a run at %s is an object made for that call", v.prog.Fset.Position(in.Pos()))
				switch d := ev.(type) {
				case *ssa.Parameter, *ssa.FreeVar:
					seenVal[ev]++
					okV := seenVal[ev] == 1
					out = append(out, StructResult{Name: name, Kind: "ownership", Text: text, OK: okV,
						Detail: map[bool]string{true: "parameter / captured variable " + d.Name() + ": one LogEvent per call of this function (callers create the event)", false: "the same parameter is logged to a run twice"}[okV]})
				case ssa.Instruction:
					if loops == nil {
						loops = computeLoops(fn)
					}
					var bad []string
					for _, l := range loops {
						if l.blocks[b] && !l.blocks[d.Block()] {
							bad = append(bad, fmt.Sprintf("made at %s, before the loop at %s in which it is logged: one object for all iterations", v.prog.Fset.Position(d.Pos()), v.prog.Fset.Position(l.header.Instrs[0].Pos())))
						}
					}
					seenVal[ev]++
					if seenVal[ev] > 1 {
						bad = append(bad, "the same event value is handed to a second LogEvent call")
					}
					sort.Strings(bad)
					out = append(out, StructResult{Name: name, Kind: "ownership", Text: text, OK: len(bad) == 0, Detail: strings.Join(uniq(bad), "; ")})
				default:
					out = append(out, StructResult{Name: name, Kind: "ownership", Text: text, OK: false, Detail: fmt.Sprintf("event value of unexpected form %T", ev)})
				}
			}
		}
	}
	if n == 0 {
		out = append(out, StructResult{Name: fmt.Sprintf("%s/structural/event_logged_once[none]", cfg.ID), Kind: "ownership", Text: "calls of LogEvent exist", OK: false, Detail: "no call found (renamed?)"})
	}
	return out
}

// globalsInitOnly: the listed package-level variables are assigned by the package initialiser only (they are
// singletons: axioms of the form `X != nil` about them rest on this). Every store to the global anywhere in the
// module must be in the synthetic package init function.
func (v *Verifier) globalsInitOnly(cfg PropConfig, sc StructuralCheck) []StructResult {
	var a struct {
		Pkg     string   `json:"pkg"`
		Globals []string `json:"globals"`
	}
	json.Unmarshal(sc.Args, &a)
	var out []StructResult
	for _, g := range a.Globals {
		var bad []string
		n := 0
		found := false
		for _, fn := range v.moduleFunctions(false) {
			for _, b := range fn.Blocks {
				for _, in := range b.Instrs {
					st, ok := in.(*ssa.Store)
					if !ok {
						continue
					}
					gl, ok := st.Addr.(*ssa.Global)
					if !ok || gl.Name() != g || gl.Pkg == nil || !strings.HasSuffix(gl.Pkg.Pkg.Path(), a.Pkg) {
						continue
					}
					found = true
					n++
					if fn.Name() != "init" || fn.Synthetic == "" {
						bad = append(bad, fmt.Sprintf("%s assigns it (%s)", shortKey(fn), v.prog.Fset.Position(st.Pos())))
					}
				}
			}
		}
		// the synthetic init is not among moduleFunctions when it is filtered as synthetic: look it up directly
		if !found {
			for _, p := range v.prog.AllPackages() {
				if p.Pkg == nil || !strings.HasSuffix(p.Pkg.Path(), a.Pkg) {
					continue
				}
				if init := p.Func("init"); init != nil {
					for _, b := range init.Blocks {
						for _, in := range b.Instrs {
							if st, ok := in.(*ssa.Store); ok {
								if gl, ok := st.Addr.(*ssa.Global); ok && gl.Name() == g {
									found = true
									n++
								}
							}
						}
					}
				}
			}
		}
		if !found {
			bad = append(bad, "no assignment found (renamed or removed?)")
		}
		sort.Strings(bad)
		out = append(out, StructResult{Name: fmt.Sprintf("%s/structural/globals_init_only[%s.%s]", cfg.ID, a.Pkg, g), Kind: "ownership",
			Text: fmt.Sprintf("the package-level singleton %s.%s is assigned by the package initialiser only", a.Pkg, g), Detail: fmt.Sprintf("%d assignments; %s", n, strings.Join(uniq(bad), "; ")), OK: len(bad) == 0})
	}
	return out
}

// fieldConstWrites (C01): which constant each function may store into a field (the status of the session). The
// session is marked failed or completed only where the code has dealt with the runs first (failSession; the end of
// the main loop) - a new assignment of such a value elsewhere is a shortcut around that. For every store to the field:
// the storing function must be listed, and the stored value must be one of the constants listed for it ("*": any).
// A function listed with k sites for a constant must not have more stores of that constant ("failed:1").
func (v *Verifier) fieldConstWrites(cfg PropConfig, sc StructuralCheck) []StructResult {
	var a struct {
		Field   string              `json:"field"`
		Allowed map[string][]string `json:"allowed"` // function -> ["const" | "const:maxsites" | "*"]
	}
	json.Unmarshal(sc.Args, &a)
	i := strings.Index(a.Field, "::")
	t, err := v.ResolveType(a.Field[:i], nil)
	if err != nil {
		engineErr("structural %s: %v", sc.Name, err)
	}
	fname := a.Field[i+2:]
	st, ok := t.Underlying().(*types.Struct)
	if !ok {
		engineErr("structural %s: not a struct", sc.Name)
	}
	var bad []string
	n := 0
	count := map[string]int{}
	for _, fn := range v.moduleFunctions(false) {
		k := shortKey(fn)
		for _, b := range fn.Blocks {
			for _, in := range b.Instrs {
				s, ok := in.(*ssa.Store)
				if !ok {
					continue
				}
				fa, ok := s.Addr.(*ssa.FieldAddr)
				if !ok {
					continue
				}
				pt, ok := fa.X.Type().Underlying().(*types.Pointer)
				if !ok || !types.Identical(pt.Elem(), t) || st.Field(fa.Field).Name() != fname {
					continue
				}
				n++
				allowed, listed := a.Allowed[k]
				if !listed {
					bad = append(bad, fmt.Sprintf("%s assigns it (%s)", k, v.prog.Fset.Position(s.Pos())))
					continue
				}
				val := "a non-constant value"
				if c, isC := s.Val.(*ssa.Const); isC && c.Value != nil {
					val = strings.Trim(c.Value.ExactString(), "\"")
				}
				okV := false
				for _, al := range allowed {
					name, max := al, 0
					if j := strings.Index(al, ":"); j > 0 {
						name = al[:j]
						fmt.Sscan(al[j+1:], &max)
					}
					if name == "*" || name == val {
						count[k+"/"+name]++
						if max == 0 || count[k+"/"+name] <= max {
							okV = true
						} else {
							bad = append(bad, fmt.Sprintf("%s assigns %q at more sites than the %d known (%s)", k, val, max, v.prog.Fset.Position(s.Pos())))
							okV = true
						}
					}
				}
				if !okV {
					bad = append(bad, fmt.Sprintf("%s assigns %q, which it is not listed for (%s)", k, val, v.prog.Fset.Position(s.Pos())))
				}
			}
		}
	}
	sort.Strings(bad)
	return []StructResult{{Name: fmt.Sprintf("%s/structural/field_const_writes[%s]", cfg.ID, sc.Name), Kind: "frame",
		Text: fmt.Sprintf("every assignment of %s is in a listed function and stores a value listed for it", a.Field), Detail: fmt.Sprintf("%d stores; %s", n, strings.Join(uniq(bad), "; ")), OK: len(bad) == 0 && n > 0}}
}

// mutatorOnFresh (C08, "results never depend on incidental process state"): a mutating method (types' SetDeprecated)
// may only be called on a value the calling function has just made - an allocation of its own, or the result of a
// function all of whose returns are such values (checked recursively, through interface conversions and phis; nil is
// fine). Handing back a shared package-level value from one of those functions (an "avoid the allocation"
// optimisation) would let the mutation leak into every later execution of the process.
func (v *Verifier) mutatorOnFresh(cfg PropConfig, sc StructuralCheck) []StructResult {
	var a struct {
		Method string `json:"method"`
	}
	json.Unmarshal(sc.Args, &a)
	memo := map[*ssa.Function]int{} // 1 fresh-returning, 2 not, 3 in progress
	why := map[*ssa.Function]string{}
	var freshVal func(x ssa.Value, depth int) (bool, string)
	var freshRet func(fn *ssa.Function, depth int) bool
	freshRet = func(fn *ssa.Function, depth int) bool {
		if m := memo[fn]; m == 1 || m == 3 {
			return true
		} else if m == 2 {
			return false
		}
		if len(fn.Blocks) == 0 || depth > 24 {
			memo[fn] = 2
			why[fn] = "no body / too deep"
			return false
		}
		memo[fn] = 3
		for _, b := range fn.Blocks {
			for _, in := range b.Instrs {
				r, ok := in.(*ssa.Return)
				if !ok || len(r.Results) == 0 {
					continue
				}
				if ok2, w := freshVal(r.Results[0], depth+1); !ok2 {
					memo[fn] = 2
					why[fn] = fmt.Sprintf("%s returns %s (%s)", shortKey(fn), w, v.prog.Fset.Position(r.Pos()))
					return false
				}
			}
		}
		memo[fn] = 1
		return true
	}
	freshVal = func(x ssa.Value, depth int) (bool, string) {
		for {
			switch y := x.(type) {
			case *ssa.MakeInterface:
				x = y.X
				continue
			case *ssa.ChangeInterface:
				x = y.X
				continue
			case *ssa.ChangeType:
				x = y.X
				continue
			}
			break
		}
		switch y := x.(type) {
		case *ssa.Alloc:
			return true, ""
		case *ssa.Const:
			if y.Value == nil {
				return true, ""
			}
			return false, "a constant"
		case *ssa.Phi:
			for _, e := range y.Edges {
				if ok, w := freshVal(e, depth+1); !ok {
					return false, w
				}
			}
			return true, ""
		case *ssa.Call:
			if c := y.Call.StaticCallee(); c != nil {
				if freshRet(c, depth+1) {
					return true, ""
				}
				return false, "the result of " + shortKey(c) + ", which may hand back an existing object: " + why[c]
			}
			return false, "the result of a dynamic call"
		case *ssa.UnOp:
			if g, ok := y.X.(*ssa.Global); ok {
				return false, "the package-level value " + g.Name()
			}
			// a local cell assigned fresh values only
			if freshValue(y, map[ssa.Value]bool{}) {
				return true, ""
			}
			if al, ok := y.X.(*ssa.Alloc); ok && al.Referrers() != nil {
				all := true
				w := ""
				for _, ref := range *al.Referrers() {
					if st, ok := ref.(*ssa.Store); ok && st.Addr == ssa.Value(al) {
						if ok2, w2 := freshVal(st.Val, depth+1); !ok2 {
							all, w = false, w2
						}
					}
				}
				if all {
					return true, ""
				}
				return false, w
			}
			return false, "a value loaded from memory"
		case *ssa.Parameter:
			return false, "its parameter " + y.Name()
		}
		return false, fmt.Sprintf("a value of form %T", x)
	}
	var out []StructResult
	n := 0
	for _, fn := range v.moduleFunctions(false) {
		if fn.Synthetic != "" {
			continue
		}
		k := 0
		for _, b := range fn.Blocks {
			for _, in := range b.Instrs {
				ci, ok := in.(ssa.CallInstruction)
				if !ok {
					continue
				}
				cc := ci.Common()
				var recv ssa.Value
				switch {
				case cc.IsInvoke() && cc.Method.Name() == a.Method:
					recv = cc.Value
				case cc.StaticCallee() != nil && cc.StaticCallee().Name() == a.Method && cc.StaticCallee().Signature.Recv() != nil && len(cc.Args) > 0:
					recv = cc.Args[0]
				default:
					continue
				}
				// promoted method through an embedded struct: the receiver is the address of the embedded field of the object
				if fa, ok := recv.(*ssa.FieldAddr); ok {
					recv = fa.X
				}
				n++
				k++
				okV, w := freshVal(recv, 0)
				key := shortKey(fn)
				if key == "" && fn.Parent() != nil {
					key = shortKey(fn.Parent()) + "$closure"
				}
				out = append(out, StructResult{Name: fmt.Sprintf("%s/structural/mutator_on_fresh[%s:%s#%d]", cfg.ID, a.Method, key, k), Kind: "ownership",
					Text: fmt.Sprintf("%s at %s is called on a value made for this call", a.Method, v.prog.Fset.Position(in.Pos())), OK: okV, Detail: w})
			}
		}
	}
	if n == 0 {
		out = append(out, StructResult{Name: fmt.Sprintf("%s/structural/mutator_on_fresh[%s:none]", cfg.ID, a.Method), Kind: "ownership", Text: "calls of the mutator exist", OK: false, Detail: "no call found (renamed?)"})
	}
	return out
}
