package main

// Loading: packages -> SSA, contract discovery, indexes.

import (
	"fmt"
	"go/ast"
	"go/parser"
	"go/types"
	"os"
	"path/filepath"
	"sort"
	"strings"

	"golang.org/x/tools/go/callgraph"
	"golang.org/x/tools/go/packages"
	"golang.org/x/tools/go/ssa"
	"golang.org/x/tools/go/ssa/ssautil"
)

const modulePath = "github.com/nyaruka/goflow"

type Verifier struct {
	sweepUses  []string
	typeinvs   map[string]*TypeInvDef // pkgpath.Type
	tiWriters  map[string]map[*ssa.Function]bool
	immutables []ImmutableDef
	prog      *ssa.Program
	pkgs      []*packages.Package
	allPkgs   map[string]*packages.Package
	ssaPkgs   map[string]*ssa.Package
	contracts map[*ssa.Function]*Contract
	byKey     map[string]*Contract // pkg + "::" + key
	ifaceCon  map[string]*Contract // pkgpath.Iface.Method
	pures     map[string]*PureDef
	axioms    []*AxiomDef
	ghosts    map[string]*GhostDef
	lemmas    map[string]*Lemma
	specFiles []*SpecFile
	globalMutated map[*ssa.Global]bool
	globalScanDone bool
	cg        *callgraph.Graph
	effCache  map[*ssa.Function]map[string]bool
	implCache map[string][]types.Type
	repoDir   string
	funcsByKey map[string]*ssa.Function
	warnings  []string
}

func isModulePkg(p *types.Package) bool {
	return p != nil && (p.Path() == modulePath || strings.HasPrefix(p.Path(), modulePath+"/"))
}

func Load(repoDir string, patterns []string, overlay map[string][]byte, extSpecDir string) (*Verifier, error) {
	cfg := &packages.Config{
		Mode:       packages.NeedName | packages.NeedFiles | packages.NeedCompiledGoFiles | packages.NeedImports | packages.NeedDeps | packages.NeedTypes | packages.NeedSyntax | packages.NeedTypesInfo | packages.NeedTypesSizes | packages.NeedModule,
		Dir:        repoDir,
		BuildFlags: []string{"-tags=verif"},
		Overlay:    overlay,
		Env:        append(os.Environ(), "GOFLAGS=-mod=mod", "GOPROXY=off", "GOSUMDB=off", "GOTOOLCHAIN=local"),
	}
	pkgs, err := packages.Load(cfg, patterns...)
	if err != nil {
		return nil, err
	}
	nerr := 0
	packages.Visit(pkgs, nil, func(p *packages.Package) {
		for _, e := range p.Errors {
			if isModulePkg(p.Types) || nerr < 3 {
				fmt.Fprintf(os.Stderr, "load error: %s: %v\n", p.PkgPath, e)
			}
			nerr++
		}
	})
	if nerr > 0 {
		return nil, fmt.Errorf("%d package load errors (build error in /repo?)", nerr)
	}
	prog, _ := ssautil.AllPackages(pkgs, ssa.InstantiateGenerics|ssa.GlobalDebug)
	prog.Build()
	v := &Verifier{prog: prog, pkgs: pkgs, allPkgs: map[string]*packages.Package{}, ssaPkgs: map[string]*ssa.Package{},
		contracts: map[*ssa.Function]*Contract{}, byKey: map[string]*Contract{}, ifaceCon: map[string]*Contract{}, pures: map[string]*PureDef{}, ghosts: map[string]*GhostDef{}, lemmas: map[string]*Lemma{}, globalMutated: map[*ssa.Global]bool{},
		effCache: map[*ssa.Function]map[string]bool{}, implCache: map[string][]types.Type{}, repoDir: repoDir, funcsByKey: map[string]*ssa.Function{}}
	packages.Visit(pkgs, nil, func(p *packages.Package) {
		v.allPkgs[p.PkgPath] = p
		if sp := prog.Package(p.Types); sp != nil {
			v.ssaPkgs[p.PkgPath] = sp
		}
	})
	// contract files inside the repo packages (comment-only files with //go:build verif)
	var paths []string
	for path := range v.allPkgs {
		paths = append(paths, path)
	}
	sort.Strings(paths)
	for _, path := range paths {
		p := v.allPkgs[path]
		if !isModulePkg(p.Types) {
			continue
		}
		for _, f := range p.CompiledGoFiles {
			if strings.HasSuffix(f, "_verif.go") {
				var data []byte
				if d, ok := overlay[f]; ok {
					data = d
				} else {
					data, err = os.ReadFile(f)
					if err != nil {
						return nil, err
					}
				}
				sf, err := ParseSpecFile(f, data, p.PkgPath)
				if err != nil {
					return nil, err
				}
				v.specFiles = append(v.specFiles, sf)
			}
		}
	}
	if extSpecDir != "" {
		ms, _ := filepath.Glob(filepath.Join(extSpecDir, "*.spec"))
		sort.Strings(ms)
		for _, f := range ms {
			sf, err := LoadSpecFile(f, "")
			if err != nil {
				return nil, err
			}
			for _, c := range sf.Contracts {
				if !isModulePath(c.Pkg) {
					c.Trusted = true
				}
			}
			v.specFiles = append(v.specFiles, sf)
		}
	}
	for _, sf := range v.specFiles {
		for _, pd := range sf.Pures {
			if _, dup := v.pures[pd.Name]; dup {
				return nil, fmt.Errorf("%s: duplicate pure/pred %s", pd.Pos, pd.Name)
			}
			v.pures[pd.Name] = pd
		}
		v.axioms = append(v.axioms, sf.Axioms...)
		for _, g := range sf.Ghosts {
			v.ghosts[g.Name] = g
		}
		v.immutables = append(v.immutables, sf.Immutables...)
		for _, ti := range sf.TypeInvs {
			if v.typeinvs == nil {
				v.typeinvs = map[string]*TypeInvDef{}
			}
			v.typeinvs[ti.Pkg+"."+ti.Type] = ti
		}
		for _, l := range sf.Lemmas {
			v.lemmas[l.Pkg+"::"+l.Name] = l
		}
		for _, c := range sf.Contracts {
			if c.Iface {
				if _, dup := v.ifaceCon[c.Pkg+"."+c.Key]; dup {
					return nil, fmt.Errorf("%s: duplicate contract for interface method %s.%s (a second block would silently replace the first)", c.File, c.Pkg, c.Key)
				}
				v.ifaceCon[c.Pkg+"."+c.Key] = c
				continue
			}
			if _, dup := v.byKey[c.Pkg+"::"+c.Key]; dup {
				return nil, fmt.Errorf("%s: duplicate contract for %s::%s (a second block would silently replace the first)", c.File, c.Pkg, c.Key)
			}
			v.byKey[c.Pkg+"::"+c.Key] = c
		}
	}
	// index functions
	for fn := range ssautil.AllFunctions(prog) {
		if fn.Pkg == nil && fn.Package() == nil {
			continue
		}
		k := funcKey(fn)
		if k == "" {
			continue
		}
		if _, dup := v.funcsByKey[k]; !dup || fn.Synthetic == "" {
			v.funcsByKey[k] = fn
		}
	}
	for k, c := range v.byKey {
		fn := v.funcsByKey[k]
		if fn == nil {
			if _, loaded := v.allPkgs[c.Pkg]; loaded {
				v.warnings = append(v.warnings, fmt.Sprintf("contract for unknown function %s (%s)", k, c.File))
			}
			continue
		}
		v.contracts[fn] = c
	}
	return v, nil
}

func isModulePath(p string) bool {
	return p == modulePath || strings.HasPrefix(p, modulePath+"/")
}

// funcKey: "<pkgpath>::<key>" where key is like "(*T).M", "T.M", "F", "(*T).M$1".
func funcKey(fn *ssa.Function) string {
	pkg := fn.Package()
	if pkg == nil {
		if fn.Parent() != nil {
			pkg = fn.Parent().Package()
		}
		if pkg == nil {
			// instantiated generics / wrappers
			if fn.Origin() != nil && fn.Origin().Package() != nil {
				pkg = fn.Origin().Package()
			} else {
				return ""
			}
		}
	}
	return pkg.Pkg.Path() + "::" + localFuncKey(fn)
}

func localFuncKey(fn *ssa.Function) string {
	if fn.Parent() != nil {
		// closure: parent key + $n
		name := fn.Name() // e.g. tryToResume$1
		pk := localFuncKey(fn.Parent())
		if i := strings.LastIndex(name, "$"); i >= 0 {
			return pk + name[i:]
		}
		return pk + "$" + name
	}
	if recv := fn.Signature.Recv(); recv != nil {
		t := recv.Type()
		ptr := false
		if p, ok := t.(*types.Pointer); ok {
			ptr = true
			t = p.Elem()
		}
		name := ""
		if n, ok := types.Unalias(t).(*types.Named); ok {
			name = n.Obj().Name()
		} else {
			name = t.String()
		}
		if ptr {
			return "(*" + name + ")." + fn.Name()
		}
		return name + "." + fn.Name()
	}
	return fn.Name()
}

// ---- type resolution for spec text

func (v *Verifier) ResolveType(text string, from *types.Package) (types.Type, error) {
	text = strings.TrimSpace(text)
	if strings.HasPrefix(text, "seq[") && strings.HasSuffix(text, "]") {
		el, err := v.ResolveType(text[4:len(text)-1], from)
		if err != nil {
			return nil, err
		}
		return &SeqType{Elem: el}, nil
	}
	if strings.HasPrefix(text, "set[") && strings.HasSuffix(text, "]") {
		el, err := v.ResolveType(text[4:len(text)-1], from)
		if err != nil {
			return nil, err
		}
		return &SetType{Elem: el}, nil
	}
	if text == "real" {
		return types.Typ[types.Float64], nil
	}
	e, err := parser.ParseExpr(text)
	if err != nil {
		return nil, fmt.Errorf("type %q: %v", text, err)
	}
	return v.resolveTypeExpr(e, from)
}

func (v *Verifier) findPackageByName(name string, from *types.Package) *types.Package {
	if from != nil {
		if from.Name() == name {
			return from
		}
		for _, imp := range from.Imports() {
			if imp.Name() == name {
				return imp
			}
		}
	}
	// any loaded package with that name, module packages first
	var cands []string
	for path, p := range v.allPkgs {
		if p.Types != nil && p.Types.Name() == name {
			cands = append(cands, path)
		}
	}
	sort.Slice(cands, func(i, j int) bool {
		mi, mj := isModulePath(cands[i]), isModulePath(cands[j])
		if mi != mj {
			return mi
		}
		if len(cands[i]) != len(cands[j]) {
			return len(cands[i]) < len(cands[j])
		}
		return cands[i] < cands[j]
	})
	if len(cands) > 0 {
		return v.allPkgs[cands[0]].Types
	}
	return nil
}

func (v *Verifier) resolveTypeExpr(e ast.Expr, from *types.Package) (types.Type, error) {
	switch x := e.(type) {
	case *ast.Ident:
		if x.Name == "any" {
			return types.Universe.Lookup("any").Type(), nil
		}
		if o := types.Universe.Lookup(x.Name); o != nil {
			if tn, ok := o.(*types.TypeName); ok {
				return tn.Type(), nil
			}
		}
		if from != nil {
			if o := from.Scope().Lookup(x.Name); o != nil {
				if tn, ok := o.(*types.TypeName); ok {
					return tn.Type(), nil
				}
			}
		}
		return nil, fmt.Errorf("unknown type %s", x.Name)
	case *ast.SelectorExpr:
		pn, ok := x.X.(*ast.Ident)
		if !ok {
			return nil, fmt.Errorf("bad qualified type")
		}
		p := v.findPackageByName(pn.Name, from)
		if p == nil {
			return nil, fmt.Errorf("unknown package %s", pn.Name)
		}
		o := p.Scope().Lookup(x.Sel.Name)
		if tn, ok := o.(*types.TypeName); ok {
			return tn.Type(), nil
		}
		return nil, fmt.Errorf("unknown type %s.%s", pn.Name, x.Sel.Name)
	case *ast.StarExpr:
		t, err := v.resolveTypeExpr(x.X, from)
		if err != nil {
			return nil, err
		}
		return types.NewPointer(t), nil
	case *ast.ArrayType:
		t, err := v.resolveTypeExpr(x.Elt, from)
		if err != nil {
			return nil, err
		}
		return types.NewSlice(t), nil
	case *ast.MapType:
		k, err := v.resolveTypeExpr(x.Key, from)
		if err != nil {
			return nil, err
		}
		t, err := v.resolveTypeExpr(x.Value, from)
		if err != nil {
			return nil, err
		}
		return types.NewMap(k, t), nil
	case *ast.ParenExpr:
		return v.resolveTypeExpr(x.X, from)
	}
	return nil, fmt.Errorf("unsupported type expression %T", e)
}

// spec-only types

type SeqType struct{ Elem types.Type }

func (s *SeqType) Underlying() types.Type { return s }
func (s *SeqType) String() string         { return "seq[" + s.Elem.String() + "]" }

type SetType struct{ Elem types.Type }

func (s *SetType) Underlying() types.Type { return s }
func (s *SetType) String() string         { return "set[" + s.Elem.String() + "]" }

// implementers of an interface among named types of module packages (closed world A3).
func (v *Verifier) Implementers(iface types.Type) []types.Type {
	key := types.TypeString(iface, nil)
	if r, ok := v.implCache[key]; ok {
		return r
	}
	it, ok := iface.Underlying().(*types.Interface)
	if !ok {
		return nil
	}
	var out []types.Type
	var paths []string
	for p := range v.allPkgs {
		paths = append(paths, p)
	}
	sort.Strings(paths)
	for _, path := range paths {
		p := v.allPkgs[path]
		if p.Types == nil {
			continue
		}
		sc := p.Types.Scope()
		for _, n := range sc.Names() {
			tn, ok := sc.Lookup(n).(*types.TypeName)
			if !ok || tn.IsAlias() {
				continue
			}
			t := tn.Type()
			if _, isIface := t.Underlying().(*types.Interface); isIface {
				continue
			}
			if nt, ok := t.(*types.Named); ok && nt.TypeParams().Len() > 0 {
				continue
			}
			if types.Implements(t, it) {
				out = append(out, t)
			} else if types.Implements(types.NewPointer(t), it) {
				out = append(out, types.NewPointer(t))
			}
		}
	}
	v.implCache[key] = out
	return out
}

// scanGlobalMutation marks package-level variables that are written (or whose maps are updated)
// outside of package initialisation.
func (v *Verifier) scanGlobalMutation() {
	if v.globalScanDone {
		return
	}
	v.globalScanDone = true
	for fn := range ssautil.AllFunctions(v.prog) {
		if fn.Name() == "init" && fn.Parent() == nil && fn.Signature.Recv() == nil {
			continue
		}
		for _, b := range fn.Blocks {
			for _, in := range b.Instrs {
				switch x := in.(type) {
				case *ssa.Store:
					if g, ok := x.Addr.(*ssa.Global); ok {
						v.globalMutated[g] = true
					}
				case *ssa.MapUpdate:
					if u, ok := x.Map.(*ssa.UnOp); ok {
						if g, ok := u.X.(*ssa.Global); ok {
							v.globalMutated[g] = true
						}
					}
				case ssa.CallInstruction:
					cc := x.Common()
					if bi, ok := cc.Value.(*ssa.Builtin); ok && (bi.Name() == "delete" || bi.Name() == "clear") {
						if u, ok := cc.Args[0].(*ssa.UnOp); ok {
							if g, ok := u.X.(*ssa.Global); ok {
								v.globalMutated[g] = true
							}
						}
					}
				}
			}
		}
	}
}

// isOpenInterface: interfaces meant to be implemented outside the module (asset sources, services,
// query targets). No closed-world reasoning (A3) is applied to them.
func isOpenInterface(t types.Type) bool {
	n, ok := types.Unalias(t).(*types.Named)
	if !ok || n.Obj().Pkg() == nil {
		return true
	}
	if !isModulePkg(n.Obj().Pkg()) {
		return true
	}
	path := strings.TrimPrefix(n.Obj().Pkg().Path(), modulePath+"/")
	name := n.Obj().Name()
	switch {
	case path == "assets":
		return true
	case path == "contactql" && (name == "Queryable" || name == "Resolver"):
		return true
	case path == "envs" && (name == "Environment" || name == "LocationResolver"):
		return true
	case path == "flows" && (strings.HasSuffix(name, "Service") || name == "Services" || strings.HasSuffix(name, "ServiceFactory")):
		return true
	case path == "excellent/types" && name == "XValue":
		return false
	}
	return false
}
