package main

// Calls: builtins, contracts, inlining, devirtualisation, havoc.

import (
	"fmt"
	"go/types"
	"os"
	"regexp"
	"sort"
	"strings"

	"golang.org/x/tools/go/ssa"
)

func (fv *FuncVC) call(fr *Frame, b *ssa.BasicBlock, st *State, reach string, x *ssa.Call) Val {
	cc := x.Common()
	pos := fv.pos(x.Pos())
	if fr.top && fv.nopanic && fv.con != nil && fv.con.NoPanicUntil != "" {
		name := ""
		if cc.IsInvoke() {
			name = cc.Method.Name()
		} else if sc := cc.StaticCallee(); sc != nil {
			name = sc.Name()
		}
		if name == fv.con.NoPanicUntil {
			fv.nopanic = false
		}
	}
	// builtins
	if bi, ok := cc.Value.(*ssa.Builtin); ok {
		return fv.builtin(fr, st, reach, x, bi)
	}
	var args []Val
	for _, a := range cc.Args {
		args = append(args, fv.get(fr, a))
	}
	if cc.IsInvoke() {
		recv := fv.get(fr, cc.Value)
		if fv.nopanic {
			fv.oblige("safe:nil", "invoke", reach, Not(Eq(recv.C[0], "0")), "method call on nil interface", pos)
		}
		return fv.invoke(fr, st, reach, x, recv, args, pos)
	}
	if callee := cc.StaticCallee(); callee != nil {
		var free []Val
		if mc, ok := cc.Value.(*ssa.MakeClosure); ok {
			for _, bnd := range mc.Bindings {
				free = append(free, fv.get(fr, bnd))
			}
		}
		return fv.callStatic(fr, st, reach, callee, args, free, x.Type(), pos)
	}
	// dynamic call through a function value
	fval := fv.get(fr, cc.Value)
	if fval.Cl != nil {
		fn := fval.Cl.Fn.(*ssa.Function)
		return fv.callStatic(fr, st, reach, fn, args, fval.Cl.Bindings, x.Type(), pos)
	}
	if fv.nopanic {
		fv.oblige("safe:nil", "funcall", reach, Not(Eq(fval.C[0], "0")), "call of nil function", pos)
	}
	// callback contract of the enclosing function for this parameter?
	if name := fv.valueSourceName(fr, cc.Value); name != "" {
		if cb := fv.callbackSpec(fr, name); cb != nil {
			fv.cbAt = x.Block()
			r := fv.applyCallback(fr, st, reach, cb, args, x.Type(), pos)
			fv.cbAt = nil
			return r
		}
	}
	// typed callback contracts (e.g. flows.EventCallback)
	if cb := fv.typedCallback(cc.Value.Type()); cb != nil {
		return fv.applyCallback(fr, st, reach, cb, args, x.Type(), pos)
	}
	// unknown function value: havoc result and the effects of every function with this signature
	fv.havoced[fmt.Sprintf("dynamic call of %s at %s", cc.Value.Name(), pos)] = true
	keys, all := fv.v.dynamicEffects(fv, cc.Signature())
	if os.Getenv("GOCV_DEBUG") != "" {
		var mk []string
		for _, k := range keys {
			if isModuleKey(k) {
				mk = append(mk, k)
			}
		}
		fmt.Fprintf(os.Stderr, "[debug] havoc dynamic call %s all=%v module keys=%v\n", cc.Value.Name(), all, mk)
	}
	fv.havocKeys(st, keys, all)
	return fv.freshResult(st, reach, x.Type(), "dyncall")
}

func (fv *FuncVC) valueSourceName(fr *Frame, v ssa.Value) string {
	switch x := v.(type) {
	case *ssa.Parameter:
		return x.Name()
	case *ssa.FreeVar:
		return x.Name()
	case *ssa.UnOp:
		// load of a captured variable cell
		if f, ok := x.X.(*ssa.FreeVar); ok {
			return f.Name()
		}
		if a, ok := x.X.(*ssa.Alloc); ok {
			return a.Comment
		}
	}
	return ""
}

func (fv *FuncVC) callbackSpec(fr *Frame, name string) *CallbackSpec {
	if c := fv.v.contracts[fr.fn]; c != nil {
		if cb, ok := c.Callbacks[name]; ok {
			return cb
		}
	}
	if fr.con != nil {
		if cb, ok := fr.con.Callbacks[name]; ok {
			return cb
		}
	}
	return nil
}

// typedCallback looks up a contract declared for a named function type: `interface flows.EventCallback.call`
func (fv *FuncVC) typedCallback(t types.Type) *CallbackSpec {
	n, ok := types.Unalias(t).(*types.Named)
	if !ok || n.Obj().Pkg() == nil {
		return nil
	}
	c := fv.v.ifaceCon[n.Obj().Pkg().Path()+"."+n.Obj().Name()+".call"]
	if c == nil {
		return nil
	}
	sig := n.Underlying().(*types.Signature)
	cb := &CallbackSpec{Param: n.Obj().Name(), Requires: c.Requires, Ensures: c.Ensures, Assigns: c.Assigns, Pure: c.Pure}
	for i := 0; i < sig.Params().Len(); i++ {
		nm := sig.Params().At(i).Name()
		if nm == "" || nm == "_" {
			nm = fmt.Sprintf("arg%d", i)
		}
		cb.Args = append(cb.Args, nm)
	}
	fv.assumed["callback type "+n.Obj().Pkg().Path()+"."+n.Obj().Name()] = true
	return cb
}

func (fv *FuncVC) applyCallback(fr *Frame, st *State, reach string, cb *CallbackSpec, args []Val, rt types.Type, pos string) Val {
	names := map[string]Val{}
	for i, a := range cb.Args {
		if i < len(args) {
			names[a] = args[i]
		}
	}
	pre := st.Clone()
	env := &SpecEnv{fv: fv, names: names, cur: pre, old: pre, pkg: fr.fn.Package().Pkg}
	if fv.cbAt != nil {
		// callback contract of a parameter of the enclosing function: its clauses may name that function's variables
		env.fr, env.at = fr, fv.cbAt
	}
	for _, r := range cb.Requires {
		fv.oblige("pre@callback", cb.Param+":"+clauseLabel(r), reach, fv.evalClause(env, r), r.Text, pos)
	}
	fv.applyAssigns(env, st, cb.Assigns, nil, true)
	res := fv.freshResult(st, reach, rt, "cb."+cb.Param)
	fv.bindResults(names, res, rt)
	env2 := &SpecEnv{fv: fv, names: names, cur: st, old: pre, pkg: fr.fn.Package().Pkg}
	for _, e := range cb.Ensures {
		fv.ctx.Assume(Implies(reach, fv.evalClause(env2, e)))
	}
	return res
}

func (fv *FuncVC) bindResults(names map[string]Val, res Val, rt types.Type) {
	if rt == nil {
		return
	}
	if tp, ok := rt.(*types.Tuple); ok {
		for i := 0; i < tp.Len(); i++ {
			lo, hi := fv.m.TupleRange(tp, i)
			v := Val{T: tp.At(i).Type(), C: res.C[lo:hi]}
			names[fmt.Sprintf("result%d", i)] = v
			if n := tp.At(i).Name(); n != "" && n != "_" {
				if _, exists := names[n]; !exists {
					names[n] = v
				}
			}
		}
		if tp.Len() == 1 {
			names["result"] = names["result0"]
		}
		return
	}
	names["result"] = res
	names["result0"] = res
}

func (fv *FuncVC) freshResult(st *State, reach string, rt types.Type, prefix string) Val {
	if rt == nil {
		return Val{}
	}
	if tp, ok := rt.(*types.Tuple); ok {
		if tp.Len() == 0 {
			return Val{T: rt}
		}
		var cs []string
		for i := 0; i < tp.Len(); i++ {
			v := fv.m.FreshVal(prefix, tp.At(i).Type())
			fv.typeFacts(v, st, reach)
			cs = append(cs, v.C...)
		}
		return Val{T: rt, C: cs}
	}
	v := fv.m.FreshVal(prefix, rt)
	fv.typeFacts(v, st, reach)
	return v
}

// keepProtected remembers the current versions of protected ghosts that are not in keys; the returned
// function puts them back after a havoc of everything.
func (fv *FuncVC) keepProtected(st *State, keys []string) func() {
	inKeys := map[string]bool{}
	for _, k := range keys {
		inKeys[k] = true
	}
	type kv struct {
		k HeapKey
		t string
	}
	var saved []kv
	for _, g := range fv.v.ghosts {
		if !g.Protected {
			continue
		}
		for _, hk := range fv.ghostKeys(g) {
			if !inKeys[hk.Key] {
				saved = append(saved, kv{hk, fv.m.heapGet(st, hk)})
			}
		}
	}
	for _, im := range fv.v.immutables {
		var pkg *types.Package
		if p, ok := fv.v.allPkgs[im.Pkg]; ok {
			pkg = p.Types
		}
		for _, hk := range fv.readKeys(im.Spec, pkg) {
			if !inKeys[hk.Key] {
				saved = append(saved, kv{hk, fv.m.heapGet(st, hk)})
			}
		}
		fv.assumed["immutable after construction: "+im.Spec] = true
	}
	type cv struct {
		k   HeapKey
		ref string
		val string
	}
	var cells []cv
	for _, ic := range fv.immuneCells {
		for _, hk := range fv.m.CellKeys(ic.t) {
			if !inKeys[hk.Key] {
				cells = append(cells, cv{hk, ic.ref, fv.m.Sel(fv.m.heapGet(st, hk), ic.ref)})
			}
		}
	}
	return func() {
		for _, s := range saved {
			st.heap[s.k.Key] = s.t
		}
		for _, c := range cells {
			fv.ctx.Assume(Eq(Select(fv.m.heapGet(st, c.k), c.ref), c.val))
		}
	}
}

func (fv *FuncVC) havocKeys(st *State, keys []string, all bool) {
	if all {
		restore := fv.keepProtected(st, keys)
		fv.ctx.nfresh++
		st.heap = map[string]string{}
		st.epoch = 1000000 + fv.ctx.nfresh
		st.mergedFrom = nil
		st.touch()
		restore()
	} else {
		for _, k := range keys {
			fv.m.heapHavoc(st, HeapKey{Key: k, Sort: heapKeySorts[k]})
		}
	}
	old := st.cnt
	st.cnt = fv.ctx.Fresh("cnt", SInt)
	fv.ctx.Assume(fmt.Sprintf("(>= %s %s)", st.cnt, old))
}

func (fv *FuncVC) resultType(fn *ssa.Function) types.Type {
	r := fn.Signature.Results()
	switch r.Len() {
	case 0:
		return r
	case 1:
		return r.At(0).Type()
	}
	return r
}

func (fv *FuncVC) callStatic(fr *Frame, st *State, reach string, callee *ssa.Function, args []Val, free []Val, rt types.Type, pos string) Val {
	// generic instantiation: contracts attach to the origin
	con := fv.v.contracts[callee]
	if con == nil && callee.Origin() != nil {
		con = fv.v.contracts[callee.Origin()]
	}
	if fv.con != nil && fr.depth <= 1 {
		for _, h := range fv.con.HavocCalls {
			if h == callee.Name() {
				key := funcKey(callee)
				fv.havoced[key+" (abstracted by `havocs` in the contract)"] = true
				keys, all := fv.v.Effects(fv, callee)
				fv.havocKeys(st, keys, all)
				fv.havocAddrArgs(st, args)
				return fv.freshResult(st, reach, rt, "ret."+callee.Name())
			}
		}
	}
	if fv.con != nil && fr.depth <= 1 && con != nil && con.HasAssigns {
		for _, h := range fv.con.FrameCalls {
			if h == callee.Name() {
				// abstracted by the frame its own contract declares
				fv.havoced[funcKey(callee)+" (abstracted by the assigns clause of its contract: `frames`)"] = true
				names := map[string]Val{}
				for i, p := range callee.Params {
					if i < len(args) {
						names[p.Name()] = args[i]
					}
				}
				pre := st.Clone()
				env := &SpecEnv{fv: fv, names: names, cur: pre, old: pre, pkg: pkgOf(callee), con: con}
				fv.applyAssigns(env, st, con.Assigns, callee, false)
				res := fv.freshResult(st, reach, rt, "ret."+callee.Name())
				// trusted clauses are unconditional facts about the callee (justified outside this proof)
				fv.bindResults(names, res, rt)
				env2 := &SpecEnv{fv: fv, names: names, cur: st, old: pre, pkg: pkgOf(callee), con: con}
				for _, e := range con.Ensures {
					if e.Trusted {
						fv.ctx.Assume(Implies(reach, fv.evalClause(env2, e)))
					}
				}
				return res
			}
		}
	}
	if con != nil && !con.Inline {
		return fv.applyContract(fr, st, reach, callee, con, args, free, rt, pos)
	}
	if fv.canInline(fr, callee, con) {
		return fv.inline(fr, st, reach, callee, args, free, rt, pos)
	}
	// havoc
	key := funcKey(callee)
	if key == "" {
		key = callee.String()
	}
	fv.havoced[key] = true
	keys, all := fv.v.Effects(fv, callee)
	if os.Getenv("GOCV_DEBUG") != "" {
		var mk []string
		for _, k := range keys {
			if isModuleKey(k) {
				mk = append(mk, k)
			}
		}
		fmt.Fprintf(os.Stderr, "[debug] havoc call %s all=%v module keys=%v\n   allkeys=%v\n", key, all, mk, keys)
	}
	// pointer arguments handed to external code may be written through
	if !isModulePkg(pkgOf(callee)) {
		keys = append(keys, fv.pointeeKeys(args)...)
	}
	fv.havocKeys(st, keys, all)
	fv.havocAddrArgs(st, args)
	return fv.freshResult(st, reach, rt, "ret."+callee.Name())
}

func pkgOf(fn *ssa.Function) *types.Package {
	if fn.Package() != nil {
		return fn.Package().Pkg
	}
	if fn.Origin() != nil && fn.Origin().Package() != nil {
		return fn.Origin().Package().Pkg
	}
	if fn.Parent() != nil {
		return pkgOf(fn.Parent())
	}
	if fn.Object() != nil {
		return fn.Object().Pkg()
	}
	return nil
}

// pointeeKeys: heap keys of the struct types that pointer arguments point to (external callee
// may write through them, e.g. json.Unmarshal(data, &x)).
func (fv *FuncVC) pointeeKeys(args []Val) []string {
	var keys []string
	for _, a := range args {
		if a.T == nil {
			continue
		}
		if p, ok := a.T.Underlying().(*types.Pointer); ok {
			keys = append(keys, fv.allKeysOfType(p.Elem(), map[types.Type]bool{})...)
		}
		// a pointer handed over inside an interface value (json.Unmarshal(data, v any)): the dynamic type is known when
		// the value was boxed in the caller
		if _, ok := a.T.Underlying().(*types.Interface); ok && len(a.C) == 2 {
			if dt, ok := fv.typeByID[a.C[0]]; ok {
				if p, ok := dt.Underlying().(*types.Pointer); ok {
					keys = append(keys, fv.allKeysOfType(p.Elem(), map[types.Type]bool{})...)
				}
			}
		}
	}
	return keys
}

func (fv *FuncVC) allKeysOfType(t types.Type, seen map[types.Type]bool) []string {
	if seen[t] {
		return nil
	}
	seen[t] = true
	var keys []string
	if isStructLike(t) {
		s := t.Underlying().(*types.Struct)
		for i := 0; i < s.NumFields(); i++ {
			if isStructLike(s.Field(i).Type()) {
				keys = append(keys, fv.allKeysOfType(s.Field(i).Type(), seen)...)
				continue
			}
			for _, k := range fv.m.FieldKeys(t, i) {
				keys = append(keys, k.Key)
			}
		}
		return keys
	}
	for _, k := range fv.m.CellKeys(t) {
		keys = append(keys, k.Key)
	}
	return keys
}

// havocAddrArgs: arguments that are addresses of fields / cells known to the caller.
func (fv *FuncVC) havocAddrArgs(st *State, args []Val) {
	for _, a := range args {
		if len(a.C) != 1 {
			continue
		}
		if ad, ok := fv.addrs[a.C[0]]; ok {
			nv := fv.m.FreshVal("outarg", ad.T)
			fv.typeFacts(nv, st, "true")
			fv.store(st, ad, nv)
		}
	}
}

func (fv *FuncVC) canInline(fr *Frame, callee *ssa.Function, con *Contract) bool {
	if len(callee.Blocks) == 0 {
		return false
	}
	if con != nil && con.Opaque {
		return false
	}
	if p := pkgOf(callee); fv.sweepMode && (p == nil || !isModulePkg(p)) {
		return false // sweep: panics inside dependencies (within their assumed preconditions) are not considered (A7)
	}
	if p := pkgOf(callee); p == nil || !(isModulePkg(p) || strings.HasPrefix(p.Path(), "github.com/nyaruka/gocommon")) || strings.Contains(p.Path(), "/antlr/gen/") {
		return false // dependencies and the ANTLR-generated parsers are never inlined
	}
	if fr.depth >= fv.maxInlineDepth {
		return false
	}
	for _, f := range fv.stack {
		if f == callee {
			return false
		}
	}
	n := 0
	for _, b := range callee.Blocks {
		n += len(b.Instrs)
		for _, in := range b.Instrs {
			if _, ok := in.(*ssa.DebugRef); ok {
				n--
			}
		}
	}
	forced := con != nil && con.Inline
	if n > fv.maxInlineInstrs && !forced {
		return false
	}
	loops := computeLoops(callee)
	if len(loops) > 0 {
		// loops need invariants: the callee's own `loop n` blocks, or blocks of the function under verification assigned
		// to them by the retry after an "extract method" edit
		for _, li := range loops {
			if _, ok := fv.helperLoops[fmt.Sprintf("%s#%d", funcKey(callee), li.ordinal)]; ok {
				continue
			}
			if con == nil && fv.inlineLoopHelpers {
				// retry of a thin-contract function after an edit: a helper's loop is cut like a loop of the function itself
				continue
			}
			if con == nil {
				return false
			}
			if _, ok := con.Loops[li.ordinal]; !ok {
				return false
			}
		}
	}
	for _, b := range callee.Blocks {
		for _, in := range b.Instrs {
			switch in.(type) {
			case *ssa.Go, *ssa.Select, *ssa.Send:
				return false
			}
		}
	}
	return true
}

func (fv *FuncVC) inline(fr *Frame, st *State, reach string, callee *ssa.Function, args []Val, free []Val, rt types.Type, pos string) Val {
	k := funcKey(callee)
	fv.inlined[k] = true
	nf := fv.newFrame(callee, fr.depth+1)
	nf.con = fv.v.contracts[callee]
	fv.stack = append(fv.stack, callee)
	for i := range args {
		if i < len(callee.Params) {
			args[i].T = callee.Params[i].Type()
		}
	}
	fv.run(nf, args, free, st, reach)
	fv.stack = fv.stack[:len(fv.stack)-1]
	if len(nf.rets) == 0 {
		// callee always panics: path ends. Make the continuation unreachable.
		fv.ctx.Assume(Not(reach))
		return fv.freshResult(st, reach, rt, "noret")
	}
	var conds []string
	var sts []*State
	var vals []Val
	for _, r := range nf.rets {
		conds = append(conds, r.cond)
		sts = append(sts, r.st)
		var cs []string
		for _, v := range r.vals {
			cs = append(cs, v.C...)
		}
		rv := Val{T: rt, C: cs}
		if len(r.vals) == 1 {
			rv.Cl = r.vals[0].Cl
		}
		vals = append(vals, rv)
	}
	merged := fv.m.mergeStates(conds, sts)
	*st = *merged
	// paths through the callee that panic end the caller's path as well
	fv.ctx.Assume(Implies(reach, Or(conds...)))
	res := fv.m.iteVals(conds, vals)
	res.T = rt
	return res
}

// applyContract: modular call.
func (fv *FuncVC) applyContract(fr *Frame, st *State, reach string, callee *ssa.Function, con *Contract, args []Val, free []Val, rt types.Type, pos string) Val {
	key := funcKey(callee)
	if con.Trusted {
		fv.assumed[key] = true
	}
	names := map[string]Val{}
	for i, p := range callee.Params {
		if i < len(args) {
			a := args[i]
			a.T = p.Type()
			names[p.Name()] = a
		}
	}
	for i, f := range callee.FreeVars {
		if i < len(free) {
			names["&"+f.Name()] = free[i]
		}
	}
	pre := st.Clone()
	env := &SpecEnv{fv: fv, names: names, cur: pre, old: pre, pkg: pkgOf(callee), con: con, freeOf: callee}
	for _, r := range con.Requires {
		fv.oblige("pre@call", callee.Name()+":"+clauseLabel(r), reach, fv.evalClause(env, r), r.Text, pos)
	}
	var res Val
	if con.Pure {
		res = fv.pureApp(st, callee, con, args, rt)
	} else {
		if con.HasAssigns {
			fv.applyAssigns(env, st, con.Assigns, callee, false)
		} else {
			keys, all := fv.v.Effects(fv, callee)
			fv.havocKeys(st, keys, all)
		}
		res = fv.freshResult(st, reach, rt, "ret."+callee.Name())
	}
	fv.bindResults(names, res, rt)
	env2 := &SpecEnv{fv: fv, names: names, cur: st, old: pre, pkg: pkgOf(callee), con: con, freeOf: callee}
	for _, e := range con.Ensures {
		if e.Local || fv.forgets(callee.Name(), e.Label) {
			continue
		}
		fv.ctx.Assume(Implies(reach, fv.evalClause(env2, e)))
	}
	for _, e := range con.Records {
		fv.ctx.Assume(Implies(reach, fv.evalClause(env2, e)))
	}
	return res
}

// pureApp: result is an uninterpreted function of the arguments and the heap arrays read.
func (fv *FuncVC) pureApp(st *State, callee *ssa.Function, con *Contract, args []Val, rt types.Type) Val {
	base := "pf$" + sanitize(strings.TrimPrefix(funcKey(callee), modulePath+"/"))
	return fv.pureAppNamed(st, base, con.Reads, pkgOf(callee), args, rt)
}

var boundVarRe = regexp.MustCompile(`![bq][0-9]`)

func (fv *FuncVC) pureAppNamed(st *State, base string, reads []string, pkg *types.Package, args []Val, rt types.Type) Val {
	var as []string
	var sorts []Sort
	for _, a := range args {
		cs := fv.m.Flatten(a.T)
		for i, c := range a.C {
			as = append(as, c)
			sorts = append(sorts, cs[i].Sort)
		}
	}
	nargs := len(as)
	var keys []HeapKey
	for _, r := range reads {
		for _, hk := range fv.readKeys(r, pkg) {
			as = append(as, fv.m.heapGet(st, hk))
			sorts = append(sorts, hk.Sort)
			keys = append(keys, hk)
		}
	}
	basAs, guard := fv.allocBaseArgs(st, keys, args, as, nargs)
	// remember the heap versions spec functions are applied to: their axioms are instantiated for each (finalize)
	if strings.HasPrefix(base, "sp$") && len(keys) > 0 && fv.m.recording == nil {
		hk := strings.Join(as[nargs:], " ")
		tk := base + " " + hk
		if fv.pureTuples == nil {
			fv.pureTuples = map[string]*pureTuple{}
		}
		if _, seen := fv.pureTuples[tk]; !seen && len(fv.pureTuples) < 200 {
			pt := &pureTuple{base: base, keys: keys, heapTerms: append([]string(nil), as[nargs:]...), sorts: append([]Sort(nil), sorts...), rt: rt}
			for _, a := range args {
				for _, cmp := range fv.m.Flatten(a.T) {
					pt.argKinds = append(pt.argKinds, cmp.Kind)
				}
			}
			fv.pureTuples[tk] = pt
			fv.pureTupleOrder = append(fv.pureTupleOrder, tk)
		}
		if fv.axiomStates == nil {
			fv.axiomStates = map[string]*State{}
		}
		if _, seen := fv.axiomStates[hk]; !seen && len(fv.axiomStates) < 40 {
			fv.axiomStates[hk] = st.Clone()
			fv.axiomStateOrder = append(fv.axiomStateOrder, hk)
		}
	}
	cs := fv.m.Flatten(rt)
	res := Val{T: rt, C: make([]string, len(cs))}
	for i, c := range cs {
		name := fmt.Sprintf("%s%s", base, sanitize(c.Path))
		fv.ctx.Decl(name, sorts, c.Sort)
		res.C[i] = App(name, as...)
		if basAs != nil {
			res.C[i] = Ite(guard, App(name, basAs...), res.C[i])
		}
		// name large applications so that later formulas stay small (not possible under a binder)
		if (fv.binderDepth == 0 || !boundVarRe.MatchString(res.C[i])) && len(res.C[i]) > 120 {
			if n, ok := fv.appNames[res.C[i]]; ok {
				res.C[i] = n
			} else {
				n := fv.ctx.Fresh("app."+name, c.Sort)
				fv.ctx.Assume(Eq(n, res.C[i]))
				if fv.appNames == nil {
					fv.appNames = map[string]string{}
				}
				fv.appNames[res.C[i]] = n
				res.C[i] = n
			}
		}
	}
	// references returned by a pure function are treated as existing before the call (its results
	// are memoised values as far as the caller can tell)
	if fv.binderDepth == 0 || !boundVarRe.MatchString(strings.Join(res.C, " ")) {
		for _, f := range fv.m.TypeFacts(res, st.cnt) {
			fv.ctx.Assume(f)
		}
	}
	return res
}

// readKeys resolves "T::field" / "T::*" / "elems[T]" / "map[K]V" into heap keys.
func (fv *FuncVC) readKeys(spec string, pkg *types.Package) []HeapKey {
	if strings.HasPrefix(spec, "elems[") {
		t, err := fv.v.ResolveType(spec[6:len(spec)-1], pkg)
		if err != nil {
			engineErr("reads %s: %v", spec, err)
		}
		return fv.m.ElemKeys(t)
	}
	if strings.HasPrefix(spec, "map[") {
		t, err := fv.v.ResolveType(spec, pkg)
		if err != nil {
			engineErr("reads %s: %v", spec, err)
		}
		mt := t.(*types.Map)
		return append([]HeapKey{fv.m.MapDomKey(mt)}, fv.m.MapValKeys(mt)...)
	}
	if strings.HasPrefix(spec, "ghost.") {
		g := fv.v.ghosts[spec[6:]]
		if g == nil {
			engineErr("unknown ghost %s", spec)
		}
		return fv.ghostKeys(g)
	}
	i := strings.Index(spec, "::")
	if i < 0 {
		engineErr("bad reads/assigns item %q (want T::field)", spec)
	}
	t, err := fv.v.ResolveType(spec[:i], pkg)
	if err != nil {
		engineErr("reads %s: %v", spec, err)
	}
	s, ok := t.Underlying().(*types.Struct)
	if !ok {
		engineErr("reads %s: not a struct", spec)
	}
	var out []HeapKey
	for j := 0; j < s.NumFields(); j++ {
		if spec[i+2:] == "*" || s.Field(j).Name() == spec[i+2:] {
			if isStructLike(s.Field(j).Type()) {
				for _, k := range fv.allKeysOfType(s.Field(j).Type(), map[types.Type]bool{}) {
					out = append(out, HeapKey{Key: k, Sort: heapKeySorts[k]})
				}
				continue
			}
			out = append(out, fv.m.FieldKeys(t, j)...)
		}
	}
	if len(out) == 0 {
		engineErr("reads/assigns %s: no such field", spec)
	}
	return out
}

func (fv *FuncVC) ghostKeys(g *GhostDef) []HeapKey {
	pkg := (*types.Package)(nil)
	if p, ok := fv.v.allPkgs[g.Pkg]; ok {
		pkg = p.Types
	}
	t, err := fv.v.ResolveType(g.Type, pkg)
	if err != nil {
		engineErr("ghost %s: %v", g.Name, err)
	}
	cs := fv.m.Flatten(t)
	out := make([]HeapKey, len(cs))
	for i, c := range cs {
		out[i] = HeapKey{Key: "G$" + g.Name + sanitize(c.Path), Sort: c.Sort}
	}
	return fv.m.regKeys(out)
}

func (fv *FuncVC) ghostType(g *GhostDef) types.Type {
	pkg := (*types.Package)(nil)
	if p, ok := fv.v.allPkgs[g.Pkg]; ok {
		pkg = p.Types
	}
	t, err := fv.v.ResolveType(g.Type, pkg)
	if err != nil {
		engineErr("ghost %s: %v", g.Name, err)
	}
	return t
}

// applyAssigns havocs the locations named by an assigns clause.
func (fv *FuncVC) applyAssigns(env *SpecEnv, st *State, items []AssignsItem, callee *ssa.Function, isCB bool) {
	items = fv.expandAssigns(items, env.pkg)
	for _, it := range items {
		switch {
		case it.Computed:
			if callee != nil {
				ks, all := fv.v.BodyEffects(fv, callee)
				if os.Getenv("GOCV_DEBUG") != "" {
					fmt.Fprintf(os.Stderr, "[debug] assigns computed of %s: all=%v keys=%v\n", callee.Name(), all, ks)
				}
				fv.havocKeys(st, ks, all)
			}
		case it.All:
			fv.havocKeys(st, nil, true)
		case it.TypeT != "":
			for _, hk := range fv.readKeys(it.keySpec(), env.pkg) {
				fv.m.heapHavoc(st, hk)
			}
		default:
			fv.havocLocation(env, st, it)
		}
	}
	old := st.cnt
	st.cnt = fv.ctx.Fresh("cnt", SInt)
	fv.ctx.Assume(fmt.Sprintf("(>= %s %s)", st.cnt, old))
}

// havocLocation: `x.f` (field of one object), `ghost.g`, `x[*]` (all elements of a slice)
func (fv *FuncVC) havocLocation(env *SpecEnv, st *State, it AssignsItem) {
	switch e := it.Expr.(type) {
	case *SSel:
		if id, ok := e.X.(*SIdent); ok && id.Name == "ghost" {
			g := fv.v.ghosts[e.Name]
			if g == nil {
				engineErr("assigns: unknown ghost %s", e.Name)
			}
			for _, hk := range fv.ghostKeys(g) {
				fv.m.heapHavoc(st, hk)
			}
			return
		}
		base := fv.evalSpec(env, e.X)
		structT, ptr := fv.structOf(base)
		if structT == nil {
			engineErr("assigns %s: base is not a struct pointer", it.Text)
		}
		path := fv.fieldPath(structT, e.Name)
		if path == nil {
			engineErr("assigns %s: no field %s", it.Text, e.Name)
		}
		// walk embedded path
		cur, curT := ptr, structT
		for i, idx := range path {
			ft := curT.Underlying().(*types.Struct).Field(idx).Type()
			if i == len(path)-1 {
				if isStructLike(ft) {
					sub := fv.fldTerm(curT, idx, cur)
					nv := fv.m.FreshVal("havoc", ft)
					fv.typeFacts(nv, st, "true")
					fv.storeStruct(st, sub, ft, nv)
				} else {
					for _, hk := range fv.m.FieldKeys(curT, idx) {
						h := fv.m.heapGet(st, hk)
						nv := fv.ctx.Fresh("havoc", elemSortOf(hk.Sort))
						fv.m.heapSet(st, hk, Store(h, cur, nv))
					}
					// type facts of the new value
					nvv := fv.load(st, &Addr{Kind: AField, Base: cur, StructT: curT, Field: idx, T: ft})
					fv.typeFacts(nvv, st, "true")
				}
				return
			}
			if isStructLike(ft) {
				cur = fv.fldTerm(curT, idx, cur)
				curT = ft
			} else if p, ok := ft.Underlying().(*types.Pointer); ok {
				cur = Select(fv.m.heapGet(st, fv.m.FieldKeys(curT, idx)[0]), cur)
				curT = p.Elem()
			}
		}
	case *SIndex:
		// x[*] written as x[all]
		base := fv.evalSpec(env, e.X)
		if sl, ok := base.T.Underlying().(*types.Slice); ok {
			for _, hk := range fv.m.ElemKeys(sl.Elem()) {
				h := fv.m.heapGet(st, hk)
				nv := fv.ctx.Fresh("havoc", elemSortOf(hk.Sort))
				fv.m.heapSet(st, hk, Store(h, base.C[0], nv))
			}
			return
		}
		if mt, ok := base.T.Underlying().(*types.Map); ok {
			for _, hk := range append([]HeapKey{fv.m.MapDomKey(mt)}, fv.m.MapValKeys(mt)...) {
				h := fv.m.heapGet(st, hk)
				nv := fv.ctx.Fresh("havoc", elemSortOf(hk.Sort))
				fv.m.heapSet(st, hk, Store(h, base.C[0], nv))
			}
			return
		}
		engineErr("assigns %s: unsupported", it.Text)
	default:
		engineErr("assigns %s: unsupported location", it.Text)
	}
}

func elemSortOf(arr Sort) Sort {
	// "(Array Int X)" -> X
	s := string(arr)
	s = strings.TrimPrefix(s, "(Array Int ")
	return Sort(s[:len(s)-1])
}

// ---- invoke

func (fv *FuncVC) invoke(fr *Frame, st *State, reach string, x *ssa.Call, recv Val, args []Val, pos string) Val {
	cc := x.Common()
	rt := x.Type()
	ifaceT := cc.Value.Type()
	// statically known dynamic type (the interface value was built by MakeInterface on this path)
	if dt, ok := fv.typeByID[recv.C[0]]; ok {
		ms := fv.v.prog.MethodSets.MethodSet(dt)
		if sel := ms.Lookup(cc.Method.Pkg(), cc.Method.Name()); sel != nil {
			if fn := fv.v.prog.MethodValue(sel); fn != nil {
				rv := fv.unbox(st, recv.C[1], dt)
				rv.T = dt
				return fv.callStatic(fr, st, reach, fn, append([]Val{rv}, args...), nil, rt, pos)
			}
		}
	}
	// interface method contract?
	if n, ok := types.Unalias(ifaceT).(*types.Named); ok && n.Obj().Pkg() != nil {
		if con := fv.v.ifaceCon[n.Obj().Pkg().Path()+"."+n.Obj().Name()+"."+cc.Method.Name()]; con != nil {
			return fv.applyIfaceContract(fr, st, reach, con, cc, recv, args, rt, pos)
		}
	}
	impls := fv.v.Implementers(ifaceT)
	var cands []*ssa.Function
	var candT []types.Type
	for _, t := range impls {
		ms := fv.v.prog.MethodSets.MethodSet(t)
		sel := ms.Lookup(cc.Method.Pkg(), cc.Method.Name())
		if sel == nil {
			continue
		}
		if isTestType(t) {
			continue
		}
		fn := fv.v.prog.MethodValue(sel)
		if fn != nil {
			cands = append(cands, fn)
			candT = append(candT, t)
		}
	}
	n, isNamed := types.Unalias(ifaceT).(*types.Named)
	closed := isNamed && isModulePkg(n.Obj().Pkg()) && !isOpenInterface(ifaceT)
	if closed && len(cands) == 1 {
		fn := cands[0]
		fv.devirt[types.TypeString(ifaceT, nil)+"."+cc.Method.Name()+" -> "+fn.String()] = true
		// receiver value
		rv := fv.unbox(st, recv.C[1], candT[0])
		rv.T = candT[0]
		target := fn
		// wrapper methods (promoted through embedding) have bodies synthesized by ssa; fine to inline
		return fv.callStatic(fr, st, reach, target, append([]Val{rv}, args...), nil, rt, pos)
	}
	if closed && len(cands) > 1 && len(cands) <= 6 && fv.allSmallOrContracted(fr, cands) {
		// case split over the dynamic type
		var conds []string
		var sts []*State
		var vals []Val
		for i, fn := range cands {
			c := And(reach, Eq(recv.C[0], fv.typeID(candT[i])))
			s2 := st.Clone()
			rv := fv.unbox(s2, recv.C[1], candT[i])
			rv.T = candT[i]
			v := fv.callStatic(fr, s2, c, fn, append([]Val{rv}, cloneVals(args)...), nil, rt, pos)
			conds = append(conds, c)
			sts = append(sts, s2)
			vals = append(vals, v)
		}
		merged := fv.m.mergeStates(conds, sts)
		*st = *merged
		res := fv.m.iteVals(conds, vals)
		res.T = rt
		return res
	}
	// havoc: union of effects of all candidates
	name := types.TypeString(ifaceT, nil) + "." + cc.Method.Name()
	fv.havoced["invoke "+name] = true
	var keys []string
	all := false
	if !closed && len(cands) == 0 {
		// interface from a dependency with unknown implementers: assume no writes to module heap
		// except through pointer arguments
		keys = fv.pointeeKeys(args)
	}
	for _, fn := range cands {
		k, a := fv.v.Effects(fv, fn)
		keys = append(keys, k...)
		all = all || a
	}
	fv.havocKeys(st, keys, all)
	return fv.freshResult(st, reach, rt, "inv."+cc.Method.Name())
}

func cloneVals(vs []Val) []Val { return append([]Val(nil), vs...) }

func (fv *FuncVC) allSmallOrContracted(fr *Frame, fns []*ssa.Function) bool {
	for _, fn := range fns {
		if fv.v.contracts[fn] != nil {
			continue
		}
		if !fv.canInline(fr, fn, nil) {
			return false
		}
	}
	return true
}

func isTestType(t types.Type) bool {
	if p, ok := t.(*types.Pointer); ok {
		t = p.Elem()
	}
	if n, ok := types.Unalias(t).(*types.Named); ok && n.Obj().Pkg() != nil {
		path := n.Obj().Pkg().Path()
		return strings.HasSuffix(path, "/test") || strings.Contains(path, "/test/") || strings.HasSuffix(path, "_test")
	}
	return false
}

func (fv *FuncVC) applyIfaceContract(fr *Frame, st *State, reach string, con *Contract, cc *ssa.CallCommon, recv Val, args []Val, rt types.Type, pos string) Val {
	sig := cc.Method.Type().(*types.Signature)
	names := map[string]Val{"recv": recv, "self": recv}
	for i := 0; i < sig.Params().Len() && i < len(args); i++ {
		nm := sig.Params().At(i).Name()
		if nm == "" || nm == "_" {
			nm = fmt.Sprintf("arg%d", i)
		}
		a := args[i]
		a.T = sig.Params().At(i).Type()
		names[nm] = a
		names[fmt.Sprintf("arg%d", i)] = a
	}
	fv.assumed["interface contract "+con.Pkg+"."+con.Key] = true
	pre := st.Clone()
	pkg := cc.Method.Pkg()
	env := &SpecEnv{fv: fv, names: names, cur: pre, old: pre, pkg: pkg, con: con}
	for _, r := range con.Requires {
		fv.oblige("pre@call", cc.Method.Name()+":"+clauseLabel(r), reach, fv.evalClause(env, r), r.Text, pos)
	}
	var res Val
	if con.Pure {
		res = fv.pureAppNamed(st, "pf$"+sanitize(strings.TrimPrefix(con.Pkg, modulePath+"/")+"."+con.Key), con.Reads, pkg, append([]Val{recv}, args...), rt)
	} else {
		if con.HasAssigns {
			fv.applyAssigns(env, st, con.Assigns, nil, false)
		} else {
			var keys []string
			all := false
			for _, t := range fv.v.Implementers(cc.Value.Type()) {
				if isTestType(t) {
					continue
				}
				sel := fv.v.prog.MethodSets.MethodSet(t).Lookup(cc.Method.Pkg(), cc.Method.Name())
				if sel == nil {
					continue
				}
				if fn := fv.v.prog.MethodValue(sel); fn != nil {
					k, a := fv.v.Effects(fv, fn)
					keys = append(keys, k...)
					all = all || a
				}
			}
			fv.havocKeys(st, keys, all)
		}
		res = fv.freshResult(st, reach, rt, "inv."+cc.Method.Name())
	}
	fv.bindResults(names, res, rt)
	env2 := &SpecEnv{fv: fv, names: names, cur: st, old: pre, pkg: pkg, con: con}
	for _, e := range con.Ensures {
		if e.Local {
			continue
		}
		fv.ctx.Assume(Implies(reach, fv.evalClause(env2, e)))
	}
	return res
}

// ---- builtins

func (fv *FuncVC) builtin(fr *Frame, st *State, reach string, x *ssa.Call, bi *ssa.Builtin) Val {
	cc := x.Common()
	var args []Val
	for _, a := range cc.Args {
		args = append(args, fv.get(fr, a))
	}
	one := func(s string) Val { return Val{T: x.Type(), C: []string{s}} }
	switch bi.Name() {
	case "len":
		switch t := cc.Args[0].Type().Underlying().(type) {
		case *types.Slice:
			return one(args[0].C[2])
		case *types.Basic:
			return one(App("slen", args[0].One()))
		case *types.Map:
			fv.uf("maplen", []Sort{fv.m.MapDomKey(t).Sort, SInt}, SInt)
			r := App("maplen", fv.m.heapGet(st, fv.m.MapDomKey(t)), args[0].One())
			fv.ctx.Assume(fmt.Sprintf("(>= %s 0)", r))
			fv.ctx.Assume(Implies(Eq(args[0].One(), "0"), Eq(r, "0")))
			return one(r)
		case *types.Pointer:
			return one(IntLit(t.Elem().Underlying().(*types.Array).Len()))
		case *types.Array:
			return one(IntLit(t.Len()))
		}
	case "cap":
		if _, ok := cc.Args[0].Type().Underlying().(*types.Slice); ok {
			r := fv.ctx.Fresh("cap", SInt)
			fv.ctx.Assume(fmt.Sprintf("(>= %s %s)", r, args[0].C[2]))
			return one(r)
		}
	case "append":
		return fv.appendOp(fr, st, reach, x, args)
	case "copy":
		// copy(dst, src): havoc dst elements (A2), result min(len)
		if sl, ok := cc.Args[0].Type().Underlying().(*types.Slice); ok {
			for _, hk := range fv.m.ElemKeys(sl.Elem()) {
				h := fv.m.heapGet(st, hk)
				nv := fv.ctx.Fresh("copy", elemSortOf(hk.Sort))
				fv.m.heapSet(st, hk, Store(h, args[0].C[0], nv))
			}
		}
		r := fv.ctx.Fresh("copied", SInt)
		fv.ctx.Assume(fmt.Sprintf("(>= %s 0)", r))
		return one(r)
	case "delete":
		mt := cc.Args[0].Type().Underlying().(*types.Map)
		k := fv.mapKeyTerm(args[1])
		dk := fv.m.MapDomKey(mt)
		d := fv.m.heapGet(st, dk)
		fv.m.heapSet(st, dk, Store(d, args[0].One(), Store(Select(d, args[0].One()), k, "false")))
		return Val{}
	case "min", "max":
		r := args[0].One()
		for _, a := range args[1:] {
			if bi.Name() == "min" {
				r = fmt.Sprintf("(ite (< %s %s) %s %s)", a.One(), r, a.One(), r)
			} else {
				r = fmt.Sprintf("(ite (> %s %s) %s %s)", a.One(), r, a.One(), r)
			}
		}
		return one(r)
	case "print", "println":
		return Val{}
	case "clear":
		if mt, ok := cc.Args[0].Type().Underlying().(*types.Map); ok {
			dk := fv.m.MapDomKey(mt)
			d := fv.m.heapGet(st, dk)
			fv.m.heapSet(st, dk, Store(d, args[0].One(), fmt.Sprintf("((as const (Array %s Bool)) false)", fv.m.keySort(mt.Key()))))
		}
		return Val{}
	case "ssa:wrapnilchk":
		return args[0]
	}
	engineErr("unsupported builtin %s", bi.Name())
	return Val{}
}

// append(s, elems...) -> fresh backing array (A2), prefix copied.
func (fv *FuncVC) appendOp(fr *Frame, st *State, reach string, x *ssa.Call, args []Val) Val {
	s := args[0]
	e := args[1]
	slT, ok := x.Type().Underlying().(*types.Slice)
	if !ok {
		engineErr("append to non-slice")
	}
	var eLen string
	if _, isStr := x.Common().Args[1].Type().Underlying().(*types.Basic); isStr {
		// append([]byte, string...)
		eLen = App("slen", e.One())
		r := fv.alloc(st)
		for _, hk := range fv.m.ElemKeys(slT.Elem()) {
			h := fv.m.heapGet(st, hk)
			nv := fv.ctx.Fresh("appended", elemSortOf(hk.Sort))
			fv.m.heapSetAt(st, hk, r, Store(h, r, nv))
		}
		return Val{T: x.Type(), C: []string{r, "0", fmt.Sprintf("(+ %s %s)", s.C[2], eLen)}}
	}
	eLen = e.C[2]
	r := fv.alloc(st)
	newLen := fv.ctx.Fresh("applen", SInt)
	fv.ctx.Assume(Eq(newLen, simplifyAdd(s.C[2], eLen)))
	// new array contents: forall i. 0<=i<len(s) -> new[i] = s[off+i]; len(s)<=i<newLen -> e[eoff + i-len(s)]
	for _, hk := range fv.m.ElemKeys(slT.Elem()) {
		h := fv.m.heapGet(st, hk)
		es := elemSortOf(hk.Sort)
		na := fv.ctx.Fresh("apparr", es)
		fv.ctx.Assume(fmt.Sprintf("(forall ((i Int)) (! (=> (and (<= 0 i) (< i %s)) (= (select %s i) (select (select %s %s) (sidx %s i)))) :pattern ((select %s i))))", s.C[2], na, h, s.C[0], s.C[1], na))
		// single-element appends are the common case (varargs array of constant length): unroll when constant
		fv.ctx.Assume(fmt.Sprintf("(forall ((i Int)) (! (=> (and (<= %s i) (< i %s)) (= (select %s i) (select (select %s %s) (sidx %s (- i %s))))) :pattern ((select %s i))))", s.C[2], newLen, na, h, e.C[0], e.C[1], s.C[2], na))
		fv.m.heapSetAt(st, hk, r, Store(h, r, na))
	}
	return Val{T: x.Type(), C: []string{r, "0", newLen}}
}

func sortedKeys(m map[string]bool) []string {
	var out []string
	for k := range m {
		out = append(out, k)
	}
	sort.Strings(out)
	return out
}

// expandAssigns replaces effects(T) items by the assigns of the typed callback contract of T.
func (fv *FuncVC) expandAssigns(items []AssignsItem, pkg *types.Package) []AssignsItem {
	var out []AssignsItem
	for _, it := range items {
		if it.Callback == "" {
			out = append(out, it)
			continue
		}
		t, err := fv.v.ResolveType(it.Callback, pkg)
		if err != nil {
			engineErr("assigns %s: %v", it.Text, err)
		}
		n, ok := types.Unalias(t).(*types.Named)
		if !ok {
			engineErr("assigns %s: not a named function type", it.Text)
		}
		c := fv.v.ifaceCon[n.Obj().Pkg().Path()+"."+n.Obj().Name()+".call"]
		if c == nil {
			engineErr("assigns %s: no callback contract for %s", it.Text, it.Callback)
		}
		for _, ci := range c.Assigns {
			if ci.TypeT != "" {
				// qualify the type relative to the callback's package
				ci2 := ci
				ci2.TypeT = fv.qualifyTypeText(ci.TypeT, n.Obj().Pkg())
				out = append(out, ci2)
			} else {
				out = append(out, ci)
			}
		}
	}
	return out
}

// qualifyTypeText makes a type name usable from any package: "run" (in package runs) -> "runs.run"
func (fv *FuncVC) qualifyTypeText(text string, from *types.Package) string {
	if strings.Contains(text, ".") || strings.HasPrefix(text, "elems[") || strings.HasPrefix(text, "map[") {
		return text
	}
	return from.Name() + "." + text
}

func (fv *FuncVC) forgets(callee, label string) bool {
	if fv.con == nil {
		return false
	}
	for _, f := range fv.con.Forget {
		if f == callee || f == callee+":"+label {
			return true
		}
	}
	return false
}

func qualifiedKeySpec(fv *FuncVC, it AssignsItem, from *types.Package) string {
	it.TypeT = fv.qualifyTypeText(it.TypeT, from)
	return it.keySpec()
}
