package main

// Replay probes: terms over the entry state whose model values describe the counterexample input.

import (
	"fmt"
	"go/types"
	"strings"
)

func (fv *FuncVC) addProbe(name string, v Val) {
	if v.T == nil {
		return
	}
	cs := fv.m.Flatten(v.T)
	for i, c := range cs {
		kind := "int"
		switch {
		case c.Sort == SBool:
			kind = "bool"
		case c.Sort == SReal:
			kind = "real"
		case c.Kind == "str":
			kind = "str"
		case c.Sort != SInt:
			continue
		}
		fv.probes = append(fv.probes, Probe{Name: name + c.Path, Term: v.C[i], Kind: kind})
		if kind == "str" {
			fv.probes = append(fv.probes, Probe{Name: name + c.Path + ".$len", Term: App("slen", v.C[i]), Kind: "int"})
		}
	}
}

// autoProbes: parameters, one level of fields behind struct pointers, slice lengths and the
// first elements of slices.
func (fv *FuncVC) autoProbes(names []string, vals []Val, st *State) {
	for i, v := range vals {
		name := names[i]
		fv.addProbe(name, v)
		fv.probeDeep(name, v, st, 2)
	}
}

func (fv *FuncVC) probeDeep(name string, v Val, st *State, depth int) {
	if depth == 0 || v.T == nil {
		return
	}
	switch t := v.T.Underlying().(type) {
	case *types.Pointer:
		if isStructLike(t.Elem()) {
			s := t.Elem().Underlying().(*types.Struct)
			for i := 0; i < s.NumFields(); i++ {
				ft := s.Field(i).Type()
				if isStructLike(ft) {
					continue
				}
				fval := fv.load(st, &Addr{Kind: AField, Base: v.C[0], StructT: t.Elem(), Field: i, T: ft})
				fval.T = ft
				fv.addProbe(name+"."+s.Field(i).Name(), fval)
				fv.probeDeep(name+"."+s.Field(i).Name(), fval, st, depth-1)
			}
		}
	case *types.Slice:
		for k := 0; k < 3; k++ {
			ev := fv.load(st, &Addr{Kind: AElem, Arr: v.C[0], Idx: sidx(v.C[1], fmt.Sprint(k)), T: t.Elem()})
			ev.T = t.Elem()
			fv.addProbe(fmt.Sprintf("%s[%d]", name, k), ev)
			if depth > 1 {
				fv.probeDeep(fmt.Sprintf("%s[%d]", name, k), ev, st, depth-1)
			}
		}
	}
}

// ---- s-expressions

type sexp struct {
	atom string
	list []*sexp
}

func parseSexps(s string) []*sexp {
	var out []*sexp
	pos := 0
	for {
		e, np := parseSexp(s, pos)
		if e == nil {
			break
		}
		out = append(out, e)
		pos = np
	}
	return out
}

func parseSexp(s string, pos int) (*sexp, int) {
	for pos < len(s) && (s[pos] == ' ' || s[pos] == '\n' || s[pos] == '\t' || s[pos] == '\r') {
		pos++
	}
	if pos >= len(s) {
		return nil, pos
	}
	if s[pos] == '(' {
		pos++
		e := &sexp{list: []*sexp{}}
		for {
			for pos < len(s) && (s[pos] == ' ' || s[pos] == '\n' || s[pos] == '\t' || s[pos] == '\r') {
				pos++
			}
			if pos >= len(s) {
				return e, pos
			}
			if s[pos] == ')' {
				return e, pos + 1
			}
			c, np := parseSexp(s, pos)
			if c == nil {
				return e, np
			}
			e.list = append(e.list, c)
			pos = np
		}
	}
	if s[pos] == ')' {
		return nil, pos + 1
	}
	start := pos
	if s[pos] == '|' {
		pos++
		for pos < len(s) && s[pos] != '|' {
			pos++
		}
		pos++
		return &sexp{atom: s[start:pos]}, pos
	}
	for pos < len(s) && !strings.ContainsRune(" \n\t\r()", rune(s[pos])) {
		pos++
	}
	return &sexp{atom: s[start:pos]}, pos
}

func (e *sexp) String() string {
	if e.list == nil {
		return e.atom
	}
	parts := make([]string, len(e.list))
	for i, c := range e.list {
		parts[i] = c.String()
	}
	return "(" + strings.Join(parts, " ") + ")"
}

// numeric value of a model value s-expression: 5, (- 5), 2.0, (/ 1.0 3.0)
func sexpNumber(e *sexp) string {
	if e.list == nil {
		return e.atom
	}
	if len(e.list) == 2 && e.list[0].atom == "-" {
		return "-" + sexpNumber(e.list[1])
	}
	if len(e.list) == 3 && e.list[0].atom == "/" {
		return sexpNumber(e.list[1]) + "/" + sexpNumber(e.list[2])
	}
	return e.String()
}

// decodeProbes extracts probe values from solver output (the get-value answer is the last s-expression).
func decodeProbes(o *Obligation) map[string]interface{} {
	if len(o.Probes) == 0 || o.Model == "" {
		return nil
	}
	// output: sat \n (model...) \n ((t v) ...)
	idx := strings.Index(o.Model, "\n")
	if idx < 0 {
		return nil
	}
	es := parseSexps(o.Model[idx:])
	if len(es) < 2 {
		return nil
	}
	gv := es[len(es)-1]
	if gv.list == nil || len(gv.list) != len(o.Probes) {
		return nil
	}
	// literal values
	litVal := map[string]string{}
	model := es[0]
	for _, d := range model.list {
		if d.list != nil && len(d.list) >= 5 && d.list[0].atom == "define-fun" && strings.HasPrefix(d.list[1].atom, "lit!") {
			var n int
			fmt.Sscanf(d.list[1].atom, "lit!%d", &n)
			if n < len(o.ctx.litOrder) {
				litVal[sexpNumber(d.list[4])] = o.ctx.litOrder[n]
			}
		}
	}
	out := map[string]interface{}{}
	for i, p := range o.Probes {
		pair := gv.list[i]
		if pair.list == nil || len(pair.list) != 2 {
			continue
		}
		val := sexpNumber(pair.list[1])
		switch p.Kind {
		case "str":
			if s, ok := litVal[val]; ok {
				out[p.Name] = map[string]interface{}{"lit": s}
			} else {
				out[p.Name] = map[string]interface{}{"sym": val}
			}
		case "bool":
			out[p.Name] = val == "true"
		default:
			out[p.Name] = val
		}
	}
	return out
}
