package main

// SMT layer: declarations, facts, obligations, solver portfolio.

import (
	"bytes"
	"context"
	"fmt"
	"os"
	"os/exec"
	"path/filepath"
	"sort"
	"strings"
	"sync"
	"time"
)

type Sort string

const (
	SInt  Sort = "Int"
	SBool Sort = "Bool"
	SReal Sort = "Real"
)

func ArrSort(k, v Sort) Sort { return Sort("(Array " + string(k) + " " + string(v) + ")") }

// Ctx accumulates declarations and facts for one function under verification.
type Ctx struct {
	decls    []string
	declared map[string]bool
	facts    []string
	nfresh   int
	lits     map[string]string // string literal -> const name
	litOrder []string
	axioms   []string // prelude axioms (quantified), included in every query
	typeIDs  map[string]int
}

func NewCtx() *Ctx {
	c := &Ctx{declared: map[string]bool{}, lits: map[string]string{}, typeIDs: map[string]int{}}
	c.Decl("slen", []Sort{SInt}, SInt)
	c.Decl("srunes", []Sort{SInt}, SInt)
	c.Decl("scat", []Sort{SInt, SInt}, SInt)
	c.Decl("sat", []Sort{SInt, SInt}, SInt)
	c.Decl("ssub", []Sort{SInt, SInt, SInt}, SInt)
	c.Decl("slt", []Sort{SInt, SInt}, SBool)
	c.Decl("sidx", []Sort{SInt, SInt}, SInt)
	c.Decl("box_real", []Sort{SReal}, SInt)
	c.Decl("unbox_real", []Sort{SInt}, SReal)
	c.axioms = append(c.axioms,
		"(forall ((s Int)) (! (>= (slen s) 0) :pattern ((slen s))))",
		"(forall ((s Int)) (! (and (>= (srunes s) 0) (<= (srunes s) (slen s)) (=> (> (slen s) 0) (> (srunes s) 0))) :pattern ((srunes s))))",
		"(forall ((a Int) (b Int)) (! (= (slen (scat a b)) (+ (slen a) (slen b))) :pattern ((scat a b))))",
		"(forall ((a Int) (b Int)) (! (= (srunes (scat a b)) (+ (srunes a) (srunes b))) :pattern ((scat a b))))",
		"(forall ((r Real)) (! (= (unbox_real (box_real r)) r) :pattern ((box_real r))))",
		"(forall ((o Int) (k Int)) (! (= (sidx o k) (+ o k)) :pattern ((sidx o k))))",
	)
	return c
}

func sanitize(s string) string {
	var b strings.Builder
	for _, r := range s {
		switch {
		case r >= 'a' && r <= 'z', r >= 'A' && r <= 'Z', r >= '0' && r <= '9', r == '_', r == '.', r == '$', r == '!':
			b.WriteRune(r)
		case r == '/':
			b.WriteRune('.')
		case r == '*':
			b.WriteString("ptr.")
		case r == '[':
			b.WriteString("<")
		case r == ']':
			b.WriteString(">")
		default:
			b.WriteRune('_')
		}
	}
	return b.String()
}

func (c *Ctx) Decl(name string, args []Sort, ret Sort) string {
	if c.declared[name] {
		return name
	}
	c.declared[name] = true
	as := make([]string, len(args))
	for i, a := range args {
		as[i] = string(a)
	}
	c.decls = append(c.decls, fmt.Sprintf("(declare-fun %s (%s) %s)", name, strings.Join(as, " "), ret))
	return name
}

func (c *Ctx) Const(name string, s Sort) string { return c.Decl(name, nil, s) }

func (c *Ctx) Fresh(prefix string, s Sort) string {
	c.nfresh++
	name := fmt.Sprintf("%s!%d", sanitize(prefix), c.nfresh)
	return c.Const(name, s)
}

func (c *Ctx) Assume(f string) {
	if f == "true" {
		return
	}
	c.facts = append(c.facts, f)
}

// StrLit returns the constant denoting a string literal.
func (c *Ctx) StrLit(s string) string {
	if n, ok := c.lits[s]; ok {
		return n
	}
	name := fmt.Sprintf("lit!%d", len(c.lits))
	c.Const(name, SInt)
	c.lits[s] = name
	c.litOrder = append(c.litOrder, s)
	return name
}

func (c *Ctx) TypeID(key string) int {
	if id, ok := c.typeIDs[key]; ok {
		return id
	}
	id := len(c.typeIDs) + 1
	c.typeIDs[key] = id
	return id
}

// ---- term helpers

func And(xs ...string) string {
	var ys []string
	for _, x := range xs {
		if x == "true" || x == "" {
			continue
		}
		if x == "false" {
			return "false"
		}
		ys = append(ys, x)
	}
	switch len(ys) {
	case 0:
		return "true"
	case 1:
		return ys[0]
	}
	return "(and " + strings.Join(ys, " ") + ")"
}

func Or(xs ...string) string {
	var ys []string
	for _, x := range xs {
		if x == "false" || x == "" {
			continue
		}
		if x == "true" {
			return "true"
		}
		ys = append(ys, x)
	}
	switch len(ys) {
	case 0:
		return "false"
	case 1:
		return ys[0]
	}
	return "(or " + strings.Join(ys, " ") + ")"
}

func Not(x string) string {
	if x == "true" {
		return "false"
	}
	if x == "false" {
		return "true"
	}
	if strings.HasPrefix(x, "(not ") && balancedTail(x[5:len(x)-1]) {
		return x[5 : len(x)-1]
	}
	return "(not " + x + ")"
}

func balancedTail(s string) bool {
	d := 0
	for i, ch := range s {
		if ch == '(' {
			d++
		} else if ch == ')' {
			d--
			if d < 0 {
				return false
			}
			if d == 0 && i != len(s)-1 {
				return false
			}
		} else if d == 0 && ch == ' ' {
			return false
		}
	}
	return d == 0
}

func Implies(a, b string) string {
	if a == "true" {
		return b
	}
	if b == "true" || a == "false" {
		return "true"
	}
	return "(=> " + a + " " + b + ")"
}

func Ite(c, a, b string) string {
	if a == b {
		return a
	}
	if c == "true" {
		return a
	}
	if c == "false" {
		return b
	}
	return "(ite " + c + " " + a + " " + b + ")"
}

func Eq(a, b string) string {
	if a == b {
		return "true"
	}
	return "(= " + a + " " + b + ")"
}

func App(f string, args ...string) string {
	if len(args) == 0 {
		return f
	}
	return "(" + f + " " + strings.Join(args, " ") + ")"
}

func IntLit(n int64) string {
	if n < 0 {
		return fmt.Sprintf("(- %d)", -n)
	}
	return fmt.Sprintf("%d", n)
}

// ---- obligations

type Obligation struct {
	Name   string // <prop>/<pkg>.<Func>/<kind>[label]
	Kind   string
	Func   string
	Label  string
	Pos    string
	NFacts int // prefix of ctx.facts that may be used
	Goal   string
	Cover  bool // must be SAT (vacuity guard)
	Text   string
	ctx    *Ctx

	// results
	Result string // unsat | sat | unknown | timeout
	Solver string
	TimeS  float64
	Model  string
	Query  string
	Probes []Probe
	Static    bool // decided by a static analysis, not by a solver
	Candidate bool // model found with the quantified prelude dropped (candidate counterexample)
}

type Probe struct {
	Name string
	Term string
	Kind string // int, str, bool, real
}

func (o *Obligation) BuildQuery(wantModel bool) string { return o.buildQuery(wantModel, false) }

func (o *Obligation) buildQuery(wantModel bool, noAxioms bool) string {
	c := o.ctx
	var b bytes.Buffer
	if wantModel {
		b.WriteString("(set-option :produce-models true)\n")
	}
	b.WriteString("(set-logic ALL)\n")
	for _, d := range c.decls {
		b.WriteString(d)
		b.WriteByte('\n')
	}
	if !o.Cover && !noAxioms { // cover (vacuity) queries are asked without the quantified prelude so that `sat` is obtainable
		for _, a := range c.axioms {
			fmt.Fprintf(&b, "(assert %s)\n", a)
		}
	}
	// literals: distinct + lengths
	if len(c.litOrder) > 0 {
		if len(c.litOrder) > 1 {
			b.WriteString("(assert (distinct")
			for _, s := range c.litOrder {
				b.WriteString(" " + c.lits[s])
			}
			b.WriteString("))\n")
		}
		for _, s := range c.litOrder {
			fmt.Fprintf(&b, "(assert (= (slen %s) %d))\n", c.lits[s], len(s))
			fmt.Fprintf(&b, "(assert (= (srunes %s) %d))\n", c.lits[s], len([]rune(s)))
		}
		if e, ok := c.lits[""]; ok && !o.Cover && !noAxioms {
			fmt.Fprintf(&b, "(assert (forall ((s Int)) (! (=> (= (slen s) 0) (= s %s)) :pattern ((slen s)))))\n", e)
		}
	}
	for _, f := range c.facts[:o.NFacts] {
		fmt.Fprintf(&b, "(assert %s)\n", f)
	}
	if o.Cover {
		fmt.Fprintf(&b, "(assert %s)\n", o.Goal)
	} else {
		fmt.Fprintf(&b, "(assert (not %s))\n", o.Goal)
	}
	b.WriteString("(check-sat)\n")
	if wantModel {
		b.WriteString("(get-model)\n")
		if len(o.Probes) > 0 {
			b.WriteString("(get-value (")
			for _, p := range o.Probes {
				b.WriteString(p.Term + " ")
			}
			b.WriteString("))\n")
		}
	}
	return b.String()
}

type SolverCfg struct {
	Name string
	Args func(file string, timeoutS int, seed int) []string
}

var solvers = []SolverCfg{
	{"z3-new", func(f string, t, seed int) []string {
		return []string{"z3-new", "-smt2", fmt.Sprintf("-T:%d", t), fmt.Sprintf("smt.random_seed=%d", seed), f}
	}},
	// pure E-matching (no model-based instantiation): decides many goals with nested quantifiers at once
	{"z3-new-ematch", func(f string, t, seed int) []string {
		return []string{"z3-new", "-smt2", fmt.Sprintf("-T:%d", t), "smt.auto_config=false", "smt.mbqi=false", fmt.Sprintf("smt.random_seed=%d", seed), f}
	}},
	{"z3", func(f string, t, seed int) []string {
		return []string{"z3", "-smt2", fmt.Sprintf("-T:%d", t), fmt.Sprintf("smt.random_seed=%d", seed), f}
	}},
	{"cvc5", func(f string, t, seed int) []string {
		return []string{"cvc5", "--lang=smt2", fmt.Sprintf("--tlimit=%d", t*1000), fmt.Sprintf("--seed=%d", seed), f}
	}},
}

func runSolver(ctx context.Context, sc SolverCfg, file string, timeoutS, seed int) (string, string) {
	args := sc.Args(file, timeoutS, seed)
	cctx, cancel := context.WithTimeout(ctx, time.Duration(timeoutS+2)*time.Second)
	defer cancel()
	cmd := exec.CommandContext(cctx, args[0], args[1:]...)
	var out bytes.Buffer
	cmd.Stdout = &out
	cmd.Stderr = &out
	_ = cmd.Run()
	s := out.String()
	first := ""
	for _, ln := range strings.Split(s, "\n") {
		// solver warnings (e.g. about a pattern it drops) precede the answer
		if ln = strings.TrimSpace(ln); ln != "" && !strings.HasPrefix(ln, "WARNING") {
			first = ln
			break
		}
	}
	switch first {
	case "unsat", "sat", "unknown":
		return first, s
	}
	if strings.Contains(s, "timeout") || cctx.Err() != nil {
		return "timeout", s
	}
	return "error", s
}

// Discharge runs the portfolio for one obligation.
func (o *Obligation) Discharge(workdir string, timeoutS int, allSolvers bool, seed int) {
	o.discharge(workdir, timeoutS, allSolvers, seed, false)
}

func (o *Obligation) discharge(workdir string, timeoutS int, allSolvers bool, seed int, noAxioms bool) {
	q := o.buildQuery(true, noAxioms)
	o.Query = q
	suffix := ".smt2"
	if noAxioms {
		suffix = ".noax.smt2"
	}
	file := filepath.Join(workdir, sanitize(o.Name)+suffix)
	if len(file) > 200 {
		file = filepath.Join(workdir, fmt.Sprintf("q%x%s", hashString(o.Name), suffix))
	}
	os.WriteFile(file, []byte(q), 0o644)
	start := time.Now()
	type res struct{ r, out, solver string }
	ctx, cancel := context.WithCancel(context.Background())
	defer cancel()
	ch := make(chan res, len(solvers))
	n := 0
	for i, sc := range solvers {
		if !allSolvers && i > 1 {
			break
		}
		n++
		go func(sc SolverCfg) {
			r, out := runSolver(ctx, sc, file, timeoutS, seed)
			ch <- res{r, out, sc.Name}
		}(sc)
	}
	final := res{r: "unknown"}
	definitive := map[string]string{}
	for i := 0; i < n; i++ {
		r := <-ch
		if r.r == "unsat" || r.r == "sat" {
			definitive[r.solver] = r.r
			if final.r != "unsat" && final.r != "sat" {
				final = r
				if !allSolvers || true {
					cancel()
				}
			}
		} else if final.r != "unsat" && final.r != "sat" {
			if final.out == "" || r.r == "timeout" {
				final = r
			}
		}
	}
	o.Result = final.r
	o.Solver = final.solver
	o.TimeS = time.Since(start).Seconds()
	if final.r == "sat" {
		o.Model = final.out
	} else if final.r == "error" {
		o.Model = final.out
	}
}

func hashString(s string) uint64 {
	var h uint64 = 1469598103934665603
	for i := 0; i < len(s); i++ {
		h ^= uint64(s[i])
		h *= 1099511628211
	}
	return h
}

// DischargeAll runs obligations in parallel. Sequence: quick pass with z3-new only, then the
// full portfolio (with retries on different seeds) for anything not decided.
// fastDischarge: one attempt per obligation (used when making sweep lists: what does not discharge at once is not claimed)
var fastDischarge bool

func DischargeAll(obls []*Obligation, workdir string, timeoutS int, par int, seed int, thorough bool) {
	var wg sync.WaitGroup
	sem := make(chan struct{}, par)
	for _, o := range obls {
		wg.Add(1)
		sem <- struct{}{}
		go func(o *Obligation) {
			defer wg.Done()
			defer func() { <-sem }()
			if o.Static || (o.Result == "unsat" && o.Solver != "") {
				return // decided already (alias / loop-rebinding retries discharge their candidates themselves)
			}
			first := timeoutS
			if first > 5 {
				first = 5
			}
			if o.Cover {
				// vacuity guard: only a definite `unsat` is an alarm; quantified axioms make `sat` hard to get
				o.Discharge(workdir, 2, false, seed)
				return
			}
			o.Discharge(workdir, first, false, seed)
			if o.Result == "unsat" || o.Result == "sat" || fastDischarge {
				return
			}
			total := o.TimeS
			// the whole portfolio first (old z3 and cvc5 decide goals the two z3-new configurations do not): a candidate
			// counterexample of the weakened query below must not pre-empt a proof
			o.Discharge(workdir, first, true, seed)
			total += o.TimeS
			if o.Result == "unsat" || o.Result == "sat" {
				o.TimeS = total
				return
			}
			// counterexample search: same query without the quantified prelude (a model of it is a
			// candidate counterexample, validated by replay)
			prevRes, prevOut := o.Result, o.Model
			o.discharge(workdir, first, false, seed, true)
			total += o.TimeS
			if o.Result == "sat" {
				o.Candidate = true
				o.TimeS = total
				return
			}
			o.Result, o.Model = prevRes, prevOut
			for try := 0; try < 3; try++ {
				o.Discharge(workdir, timeoutS, true, seed+try*7919)
				total += o.TimeS
				if o.Result == "unsat" || o.Result == "sat" {
					break
				}
				if !thorough && try >= 1 {
					break
				}
			}
			o.TimeS = total
		}(o)
	}
	wg.Wait()
	// a solver that could not run at all (fork failure / killed under memory pressure on a loaded machine) leaves "error":
	// that says nothing about the obligation - those are tried again, one at a time, after the parallel phase
	for _, o := range obls {
		if o.Static || o.Cover {
			continue
		}
		for try := 0; try < 3 && o.Result == "error" && !strings.Contains(o.Model, "line "); try++ {
			time.Sleep(time.Duration(500*(try+1)) * time.Millisecond)
			o.Discharge(workdir, timeoutS, true, seed+try)
		}
	}
	sort.SliceStable(obls, func(i, j int) bool { return obls[i].Name < obls[j].Name })
}
