package main

// Evaluation of contract expressions to SMT terms.

import (
	"fmt"
	"go/constant"
	"go/types"
	"sort"
	"strings"

	"golang.org/x/tools/go/ssa"
)

type SpecEnv struct {
	fv     *FuncVC
	names  map[string]Val
	thunks map[string]SExpr
	cur    *State
	old    *State
	pkg    *types.Package
	con    *Contract
	fr     *Frame          // for source-name resolution in the function under verification
	at     *ssa.BasicBlock // program point (block) for name resolution
	freeOf *ssa.Function
	bound  map[string]Val
	loop   *loopInfo
	inOld  bool
	nowSt  *State // inside old(..): the state old was entered from (for now(..))
	useWitness bool
	fallbackFr *Frame // names not found in fr are looked up here (a loop extracted into a helper: the contract's names are the caller's)
}

func (e *SpecEnv) clone() *SpecEnv {
	n := *e
	return &n
}

func (fv *FuncVC) frameEnv(fr *Frame, at *ssa.BasicBlock, cur *State) *SpecEnv {
	env := &SpecEnv{fv: fv, names: map[string]Val{}, cur: cur, old: fr.entrySt, pkg: pkgOf(fr.fn), fr: fr, at: at}
	if fv.helperLoops != nil && fr.fn != fv.fn && fv.topFrame != nil && fv.topFrame.fn == fv.fn {
		// an inlined helper whose loops carry `loop n` blocks of the function under verification: the blocks speak about
		// that function's entry state and may name its variables
		for k := range fv.helperLoops {
			if strings.HasPrefix(k, funcKey(fr.fn)+"#") {
				env.old = fv.topFrame.entrySt
				env.fallbackFr = fv.topFrame
				env.con = fv.con
				break
			}
		}
	}
	if fr.con != nil {
		env.con = fr.con
	} else {
		env.con = fv.v.contracts[fr.fn]
	}
	if li := fr.loops[at]; li != nil {
		env.loop = li
	}
	for k, v := range fr.extraNames {
		env.names[k] = v
	}
	return env
}

func (fv *FuncVC) evalClause(env *SpecEnv, c Clause) string {
	fv.m.readLogPaused++
	defer func() { fv.m.readLogPaused-- }()
	defer func() {
		if r := recover(); r != nil {
			if ee, ok := r.(*EngineError); ok {
				panic(&EngineError{fmt.Sprintf("%s: in clause %q: %s", c.Pos, c.Text, ee.Msg)})
			}
			panic(r)
		}
	}()
	expr := c.Expr
	if len(c.Witness) > 0 && env.useWitness {
		if e2, ok := fv.applyWitness(env, expr, c.Witness); ok {
			expr = e2
		}
	}
	v := fv.evalSpec(env, expr)
	if len(v.C) != 1 {
		engineErr("clause is not boolean")
	}
	return v.C[0]
}

// SBoundVal: a pre-evaluated value spliced into a spec AST (witness instantiation)
type SBoundVal struct{ V Val }

// applyWitness instantiates the outermost existential(s) of `A ==> exists k :: B` / `exists k :: B`
// with the witness expressions, if those evaluate at this program point. Proving the instance
// proves the existential.
func (fv *FuncVC) applyWitness(env *SpecEnv, e SExpr, w map[string]SExpr) (res SExpr, ok bool) {
	defer func() {
		if r := recover(); r != nil {
			if _, isEE := r.(*EngineError); isEE {
				res, ok = nil, false
				return
			}
			panic(r)
		}
	}()
	switch x := e.(type) {
	case *SBin:
		if x.Op == "==>" {
			if y, ok := fv.applyWitness(env, x.Y, w); ok {
				return &SBin{"==>", x.X, y}, true
			}
		}
		return nil, false
	case *SQuant:
		if x.Forall {
			return nil, false
		}
		vals := map[string]Val{}
		for _, bv := range x.Vars {
			we, has := w[bv.Name]
			if !has {
				return nil, false
			}
			v := fv.evalSpec(env, we)
			t, err := fv.v.ResolveType(bv.Type, env.pkg)
			if err != nil {
				return nil, false
			}
			if len(v.C) != len(fv.m.Flatten(t)) {
				return nil, false
			}
			v.T = t
			vals[bv.Name] = v
		}
		return &SWith{Vals: vals, Body: x.Body}, true
	}
	return nil, false
}

// SWith: evaluate Body with extra name bindings
type SWith struct {
	Vals map[string]Val
	Body SExpr
}

var untypedInt = types.Typ[types.UntypedInt]
var boolT = types.Typ[types.Bool]
var stringT = types.Typ[types.String]
var intT = types.Typ[types.Int]
var untypedNil = types.Typ[types.UntypedNil]

func boolVal(s string) Val { return Val{T: boolT, C: []string{s}} }
func intVal(s string) Val  { return Val{T: intT, C: []string{s}} }

func (fv *FuncVC) evalSpec(env *SpecEnv, e SExpr) Val {
	switch x := e.(type) {
	case *SIntLit:
		return Val{T: untypedInt, C: []string{x.V}}
	case *SStrLit:
		return Val{T: stringT, C: []string{fv.ctx.StrLit(x.V)}}
	case *SBoolL:
		if x.V {
			return boolVal("true")
		}
		return boolVal("false")
	case *SNil:
		return Val{T: untypedNil, C: []string{"0"}}
	case *SIdent:
		return fv.evalIdent(env, x.Name)
	case *SUn:
		v := fv.evalSpec(env, x.X)
		switch x.Op {
		case "!":
			return boolVal(Not(v.One()))
		case "-":
			return Val{T: v.T, C: []string{"(- " + v.One() + ")"}}
		}
	case *SBin:
		return fv.evalBin(env, x)
	case *STern:
		c := fv.evalSpec(env, x.C).One()
		a := fv.evalSpec(env, x.A)
		b := fv.evalSpec(env, x.B)
		a, b = fv.unify(a, b)
		r := Val{T: a.T, C: make([]string, len(a.C))}
		if len(a.C) != len(b.C) {
			engineErr("ternary branches have different shapes")
		}
		for i := range a.C {
			r.C[i] = Ite(c, a.C[i], b.C[i])
		}
		return r
	case *SSel:
		return fv.evalSel(env, x)
	case *SIndex:
		return fv.evalIndex(env, x)
	case *SCall:
		return fv.evalCall(env, x)
	case *SQuant:
		ne := env.clone()
		ne.bound = map[string]Val{}
		for k, v := range env.bound {
			ne.bound[k] = v
		}
		var decls []string
		var guards []string
		for _, bv := range x.Vars {
			t, err := fv.v.ResolveType(bv.Type, env.pkg)
			if err != nil {
				engineErr("quantifier: %v", err)
			}
			fv.ctx.nfresh++
			cs := fv.m.Flatten(t)
			val := Val{T: t, C: make([]string, len(cs))}
			for i, c := range cs {
				n := fmt.Sprintf("%s!b%d%s", sanitize(bv.Name), fv.ctx.nfresh, sanitize(c.Path))
				val.C[i] = n
				decls = append(decls, fmt.Sprintf("(%s %s)", n, c.Sort))
			}
			ne.bound[bv.Name] = val
			// type facts as guards for refs: none (quantify over all ints) except interface sanity
		}
		fv.binderDepth++
		fv.sideStack = append(fv.sideStack, nil)
		fv.forallStack = append(fv.forallStack, x.Forall)
		body := fv.evalSpec(ne, x.Body).One()
		fv.forallStack = fv.forallStack[:len(fv.forallStack)-1]
		// instances of the post-conditions of pure functions applied to the bound variables
		if sides := fv.sideStack[len(fv.sideStack)-1]; len(sides) > 0 {
			if x.Forall {
				body = Implies(And(sides...), body)
			} else {
				body = And(append(append([]string(nil), sides...), body)...)
			}
		}
		fv.sideStack = fv.sideStack[:len(fv.sideStack)-1]
		var pats []string
		for _, te := range x.Triggers {
			tv := fv.evalSpec(ne, te)
			for _, c := range tv.C {
				// a trigger must be an application without connectives: a map read (an ite over presence) is not one
				if strings.HasPrefix(c, "(") && !strings.Contains(c, "(ite ") && !strings.Contains(c, "(not ") && !strings.Contains(c, "(and ") && !strings.Contains(c, "(let ") {
					pats = append(pats, c)
				}
			}
		}
		fv.binderDepth--
		if len(pats) > 0 {
			body = fmt.Sprintf("(! %s :pattern (%s))", body, strings.Join(pats, " "))
		}
		_ = guards
		q := "exists"
		if x.Forall {
			q = "forall"
		}
		return boolVal(fmt.Sprintf("(%s (%s) %s)", q, strings.Join(decls, " "), body))
	case *SAssert:
		v := fv.evalSpec(env, x.X)
		t, err := fv.v.ResolveType(x.Type, env.pkg)
		if err != nil {
			engineErr("assertion type: %v", err)
		}
		if _, ok := v.T.Underlying().(*types.Interface); !ok {
			engineErr("x.(T) on non-interface value")
		}
		if _, isIface := t.Underlying().(*types.Interface); isIface {
			return Val{T: t, C: v.C, St: v.St}
		}
		r := fv.unbox(fv.stateOf(env, v), v.C[1], t)
		r.T = t
		r.St = v.St
		return r
	case *SWith:
		ne := env.clone()
		ne.bound = map[string]Val{}
		for k, v := range env.bound {
			ne.bound[k] = v
		}
		for k, v := range x.Vals {
			ne.bound[k] = v
		}
		return fv.evalSpec(ne, x.Body)
	case *SSeqLit:
		engineErr("sequence literal outside ++")
	}
	engineErr("unsupported spec expression %T", e)
	return Val{}
}

func (fv *FuncVC) stateOf(env *SpecEnv, v Val) *State {
	if v.St != nil {
		return v.St
	}
	return env.cur
}

func (fv *FuncVC) evalIdent(env *SpecEnv, name string) Val {
	if v, ok := env.bound[name]; ok {
		return v
	}
	if v, ok := env.names[name]; ok {
		return v
	}
	// let bindings of the contract (macro semantics)
	if env.con != nil {
		for _, l := range env.con.Lets {
			if l.Name == name {
				if l.Old {
					// the entry state never changes: evaluate once and name the result, so that every use is the same term
					ck := fmt.Sprintf("%p:%s", env.con, l.Name)
					if cv, ok := fv.letOldCache[ck]; ok && fv.binderDepth == 0 {
						return cv
					}
					ne := env.clone()
					ne.cur = env.old
					ne.inOld = true
					v := fv.evalSpec(ne, l.Expr)
					if v.St == nil {
						v.St = env.old
					}
					if fv.binderDepth == 0 && len(v.C) == 1 && len(v.C[0]) > 40 {
						if cs := fv.m.Flatten(v.T); len(cs) == 1 {
							n := fv.ctx.Fresh("letold."+l.Name, cs[0].Sort)
							fv.ctx.axioms = append(fv.ctx.axioms, Eq(n, v.C[0]))
							v.C = []string{n}
							if fv.letOldCache == nil {
								fv.letOldCache = map[string]Val{}
							}
							fv.letOldCache[ck] = v
						}
					}
					return v
				}
				return fv.evalSpec(env, l.Expr)
			}
		}
	}
	if env.fr != nil {
		if v, ok := fv.resolveSourceName(env, name); ok {
			return v
		}
	}
	// callee contract: free variables (captured cells) by name
	if v, ok := env.names["&"+name]; ok {
		pt := v.T.Underlying().(*types.Pointer).Elem()
		r := fv.load(env.cur, fv.addrOf(v.One(), pt))
		r.T = pt
		return r
	}
	// package-level constant of the current package
	if env.pkg != nil {
		if o := env.pkg.Scope().Lookup(name); o != nil {
			if v, ok := fv.objVal(env, o); ok {
				return v
			}
		}
	}
	engineErr("unresolved name %q", name)
	return Val{}
}

func (fv *FuncVC) objVal(env *SpecEnv, o types.Object) (Val, bool) {
	switch c := o.(type) {
	case *types.Const:
		t := c.Type()
		cs := fv.m.Flatten(t)
		if len(cs) != 1 {
			return Val{}, false
		}
		switch cs[0].Kind {
		case "str":
			return Val{T: t, C: []string{fv.ctx.StrLit(constant.StringVal(c.Val()))}}, true
		case "bool":
			if constant.BoolVal(c.Val()) {
				return Val{T: t, C: []string{"true"}}, true
			}
			return Val{T: t, C: []string{"false"}}, true
		case "int", "uint", "mathint":
			if v, ok := constant.Int64Val(constant.ToInt(c.Val())); ok {
				return Val{T: t, C: []string{IntLit(v)}}, true
			}
		}
	case *types.Var:
		// package-level variable
		if sp := fv.v.prog.Package(c.Pkg()); sp != nil {
			if g, ok := sp.Members[c.Name()].(*ssa.Global); ok {
				ptr := fv.get(nil, g)
				pt := g.Type().(*types.Pointer).Elem()
				r := fv.load(env.cur, fv.addrOf(ptr.One(), pt))
				r.T = pt
				return r, true
			}
		}
	}
	return Val{}, false
}

// resolveSourceName finds the SSA value of a source-level variable at the program point env.at.
func (fv *FuncVC) resolveSourceName(env *SpecEnv, name string) (Val, bool) {
	fr := env.fr
	if a, ok := fv.aliases[name]; ok {
		name = a
	}
	if fr == nil {
		// a clause evaluated at a call site has no frame of the callee: source-level names (local(x), loop variables) mean
		// nothing there - such clauses belong in `checks`, which callers do not import
		engineErr("source-level name %q used in a clause that is evaluated outside the function's body (use `checks` for clauses over locals)", name)
	}
	// inside old(..) a variable captured by reference denotes the content of its cell in the old state
	if env.inOld && fr != nil {
		for _, f := range fr.fn.FreeVars {
			if f.Name() == name {
				if p, ok := f.Type().Underlying().(*types.Pointer); ok {
					v := fv.get(fr, f)
					r := fv.load(env.cur, fv.addrOf(v.One(), p.Elem()))
					r.T = p.Elem()
					r.St = env.cur
					return r, true
				}
			}
		}
	}
	// $i: range index of the loop
	if strings.HasPrefix(name, "$i") {
		var li *loopInfo
		if name == "$i" {
			li = env.loop
			if li == nil {
				// innermost loop containing env.at
				for _, l := range fr.loops {
					if l.blocks[env.at] && (li == nil || len(l.blocks) < len(li.blocks)) {
						li = l
					}
				}
			}
		} else {
			var n int
			fmt.Sscanf(name[2:], "%d", &n)
			lfr := fr
			for _, l := range fr.loops {
				if fv.specOrdinal(fr, l) == n {
					li = l
				}
			}
			if li == nil && env.fallbackFr != nil {
				// a `loop n` block evaluated in an extracted helper: $iN of another loop is a loop of the caller
				for _, l := range env.fallbackFr.loops {
					if fv.specOrdinal(env.fallbackFr, l) == n {
						li = l
						lfr = env.fallbackFr
					}
				}
			}
			if li != nil && lfr != fr {
				for _, in := range li.header.Instrs {
					if phi, ok := in.(*ssa.Phi); ok && phi.Comment == "rangeindex" {
						return fv.get(lfr, phi), true
					}
				}
			}
		}
		if li == nil {
			engineErr("$i used outside a loop")
		}
		for _, in := range li.header.Instrs {
			if phi, ok := in.(*ssa.Phi); ok && phi.Comment == "rangeindex" {
				return fv.get(fr, phi), true
			}
		}
		// the loop was written `for i := 0; i < n; i++` instead of `for i := range s`: the hidden range index ("elements
		// [0,$i] are done") is then i - 1 for the one counter of the loop that starts at 0 and goes up by one per iteration
		if v, ok := fv.indexLoopCounter(fr, li); ok {
			return v, true
		}
		engineErr("loop %d has no range index", li.ordinal)
	}
	// header phis of the enclosing loops (innermost first), by source name
	if env.at != nil {
		var best *ssa.Phi
		var bestSize int
		for _, l := range fr.loops {
			if !l.blocks[env.at] {
				continue
			}
			for _, in := range l.header.Instrs {
				phi, ok := in.(*ssa.Phi)
				if !ok {
					break
				}
				if phi.Comment == name {
					if _, computed := fr.vals[phi]; computed && (best == nil || len(l.blocks) < bestSize) {
						best = phi
						bestSize = len(l.blocks)
					}
				}
			}
		}
		// a debug ref in a dominating block that is *inside* the loop is more recent than the phi
		if v, ok := fv.debugRefLookup(env, name, best); ok {
			return v, true
		}
		if best != nil {
			return fv.get(fr, best), true
		}
	}
	for _, p := range fr.fn.Params {
		if p.Name() == name {
			return fv.get(fr, p), true
		}
	}
	for _, f := range fr.fn.FreeVars {
		if f.Name() == name {
			v := fv.get(fr, f)
			// captured by reference: load
			if p, ok := f.Type().Underlying().(*types.Pointer); ok {
				r := fv.load(env.cur, fv.addrOf(v.One(), p.Elem()))
				r.T = p.Elem()
				return r, true
			}
			return v, true
		}
	}
	if env.fallbackFr != nil && env.fallbackFr != fr {
		ne := env.clone()
		ne.fr = env.fallbackFr
		ne.at = env.fallbackFr.curBlock
		ne.loop = nil
		ne.fallbackFr = nil
		return fv.resolveSourceName(ne, name)
	}
	return Val{}, false
}

func (fv *FuncVC) debugRefLookup(env *SpecEnv, name string, phi *ssa.Phi) (Val, bool) {
	fr := env.fr
	// inside old(..) a parameter denotes its entry value (its cell, if it has one, does not exist yet in the entry state)
	if env.inOld {
		for _, p := range fr.fn.Params {
			if p.Name() == name {
				if v, computed := fr.vals[p]; computed {
					return v, true
				}
			}
		}
	}
	// a local that lives in a cell (captured by a closure / address taken): its value is the content of the
	// cell in the state at hand, whatever value a debug reference last recorded for it
	for _, b := range fr.fn.Blocks {
		for _, in := range b.Instrs {
			if a, ok := in.(*ssa.Alloc); ok && a.Comment == name && a.Heap {
				if v, computed := fr.vals[a]; computed {
					pt := a.Type().Underlying().(*types.Pointer).Elem()
					r := fv.load(env.cur, fv.addrOf(v.One(), pt))
					r.T = pt
					return r, true
				}
			}
		}
	}
	// walk up the dominator tree from env.at; within a block take the last entry
	for b := env.at; b != nil; b = b.Idom() {
		es := fr.dbg[b]
		// phis of this block named `name` take precedence over entries in dominators
		for i := len(es) - 1; i >= 0; i-- {
			if es[i].name != name {
				continue
			}
			if _, computed := fr.vals[es[i].val]; !computed {
				if _, isConst := es[i].val.(*ssa.Const); !isConst {
					if _, isParam := es[i].val.(*ssa.Parameter); !isParam {
						if _, isGlob := es[i].val.(*ssa.Global); !isGlob {
							continue
						}
					}
				}
			}
			if phi != nil && phi.Block() == b {
				// the debug ref is in the header itself, refers to the phi or later: accept
			}
			v := fv.get(fr, es[i].val)
			if es[i].isAddr {
				pt := es[i].val.Type().Underlying().(*types.Pointer).Elem()
				r := fv.load(env.cur, fv.addrOf(v.One(), pt))
				r.T = pt
				return r, true
			}
			return v, true
		}
		if phi != nil && phi.Block() == b {
			return Val{}, false
		}
		for _, in := range b.Instrs {
			p, ok := in.(*ssa.Phi)
			if !ok {
				break
			}
			if p.Comment == name {
				if _, computed := fr.vals[p]; computed {
					return fv.get(fr, p), true
				}
			}
		}
	}
	// Alloc cells named `name` (address-taken locals)
	for _, b := range fr.fn.Blocks {
		for _, in := range b.Instrs {
			if a, ok := in.(*ssa.Alloc); ok && a.Comment == name {
				if v, computed := fr.vals[a]; computed {
					pt := a.Type().Underlying().(*types.Pointer).Elem()
					r := fv.load(env.cur, fv.addrOf(v.One(), pt))
					r.T = pt
					return r, true
				}
			}
		}
	}
	return Val{}, false
}

func (fv *FuncVC) sortOfVal(v Val) Sort {
	if v.T == nil {
		return v.SpecSort
	}
	cs := fv.m.Flatten(v.T)
	if len(cs) != 1 {
		return ""
	}
	return cs[0].Sort
}

// unify adapts untyped literals / nil to the other operand's shape.
func (fv *FuncVC) unify(a, b Val) (Val, Val) {
	if a.T == untypedNil && b.T != untypedNil {
		return fv.m.Zero(b.T), b
	}
	if b.T == untypedNil && a.T != untypedNil {
		return a, fv.m.Zero(a.T)
	}
	if a.T == untypedInt && b.T != nil && fv.sortOfVal(b) == SReal {
		return Val{T: b.T, C: []string{toReal(a.C[0])}}, b
	}
	if b.T == untypedInt && a.T != nil && fv.sortOfVal(a) == SReal {
		return a, Val{T: a.T, C: []string{toReal(b.C[0])}}
	}
	return a, b
}

func toReal(s string) string {
	if strings.HasPrefix(s, "(") || strings.ContainsAny(s, "!$") {
		return "(to_real " + s + ")"
	}
	return s + ".0"
}

func (fv *FuncVC) valEq(a, b Val) string {
	// nil comparisons
	if a.T == untypedNil || b.T == untypedNil {
		o := a
		if a.T == untypedNil {
			o = b
		}
		if o.T == untypedNil {
			return "true"
		}
		return Eq(o.C[0], "0")
	}
	a, b = fv.unify(a, b)
	if len(a.C) != len(b.C) {
		engineErr("comparison of values with different shapes (%v vs %v)", a.T, b.T)
	}
	var es []string
	for i := range a.C {
		es = append(es, Eq(a.C[i], b.C[i]))
	}
	return And(es...)
}

func (fv *FuncVC) evalBin(env *SpecEnv, x *SBin) Val {
	switch x.Op {
	case "&&":
		return boolVal(And(fv.evalSpec(env, x.X).One(), fv.evalSpec(env, x.Y).One()))
	case "||":
		return boolVal(Or(fv.evalSpec(env, x.X).One(), fv.evalSpec(env, x.Y).One()))
	case "==>":
		return boolVal(Implies(fv.evalSpec(env, x.X).One(), fv.evalSpec(env, x.Y).One()))
	case "<==>":
		return boolVal(Eq(fv.evalSpec(env, x.X).One(), fv.evalSpec(env, x.Y).One()))
	case "++":
		return fv.seqConcat(env, x)
	}
	a := fv.evalSpec(env, x.X)
	b := fv.evalSpec(env, x.Y)
	switch x.Op {
	case "==":
		return boolVal(fv.valEq(a, b))
	case "!=":
		return boolVal(Not(fv.valEq(a, b)))
	}
	a, b = fv.unify(a, b)
	av, bv := a.One(), b.One()
	rt := a.T
	if rt == untypedInt {
		rt = b.T
	}
	switch x.Op {
	case "<", "<=", ">", ">=":
		if fv.sortOfVal(a) == SInt && a.T != nil && len(fv.m.Flatten(a.T)) == 1 && fv.m.Flatten(a.T)[0].Kind == "str" {
			lt, gt := App("slt", av, bv), App("slt", bv, av)
			switch x.Op {
			case "<":
				return boolVal(lt)
			case ">":
				return boolVal(gt)
			case "<=":
				return boolVal(Not(gt))
			default:
				return boolVal(Not(lt))
			}
		}
		return boolVal(fmt.Sprintf("(%s %s %s)", x.Op, av, bv))
	case "+":
		if a.T != nil && len(fv.m.Flatten(a.T)) == 1 && fv.m.Flatten(a.T)[0].Kind == "str" {
			return Val{T: rt, C: []string{App("scat", av, bv)}}
		}
		return Val{T: rt, C: []string{fmt.Sprintf("(+ %s %s)", av, bv)}}
	case "-":
		return Val{T: rt, C: []string{fmt.Sprintf("(- %s %s)", av, bv)}}
	case "*":
		return Val{T: rt, C: []string{fmt.Sprintf("(* %s %s)", av, bv)}}
	case "/":
		if fv.sortOfVal(a) == SReal {
			return Val{T: rt, C: []string{fmt.Sprintf("(/ %s %s)", av, bv)}}
		}
		return Val{T: rt, C: []string{fmt.Sprintf("(div %s %s)", av, bv)}}
	case "%":
		return Val{T: rt, C: []string{fmt.Sprintf("(mod %s %s)", av, bv)}}
	}
	engineErr("unsupported operator %s", x.Op)
	return Val{}
}

// structOf: for a value that is a struct pointer (or interface holding one is not resolved here)
func (fv *FuncVC) structOf(v Val) (types.Type, string) {
	if v.T == nil {
		return nil, ""
	}
	if p, ok := v.T.Underlying().(*types.Pointer); ok {
		if isStructLike(p.Elem()) {
			return p.Elem(), v.C[0]
		}
	}
	return nil, ""
}

// fieldPath finds a (possibly promoted) field by name, ignoring visibility.
func (fv *FuncVC) fieldPath(t types.Type, name string) []int {
	s, ok := t.Underlying().(*types.Struct)
	if !ok {
		return nil
	}
	for i := 0; i < s.NumFields(); i++ {
		if s.Field(i).Name() == name {
			return []int{i}
		}
	}
	for i := 0; i < s.NumFields(); i++ {
		f := s.Field(i)
		if !f.Embedded() {
			continue
		}
		ft := f.Type()
		if p, ok := ft.Underlying().(*types.Pointer); ok {
			ft = p.Elem()
		}
		if sub := fv.fieldPath(ft, name); sub != nil {
			return append([]int{i}, sub...)
		}
	}
	return nil
}

func (fv *FuncVC) evalSel(env *SpecEnv, x *SSel) Val {
	// ghost.name
	if id, ok := x.X.(*SIdent); ok {
		if id.Name == "ghost" {
			g := fv.v.ghosts[x.Name]
			if g == nil {
				engineErr("unknown ghost variable %s", x.Name)
			}
			t := fv.ghostType(g)
			var cs []string
			for _, hk := range fv.ghostKeys(g) {
				cs = append(cs, fv.m.heapGet(env.cur, hk))
			}
			return Val{T: t, C: cs}
		}
		// package-qualified constant / variable
		if _, isBound := env.bound[id.Name]; !isBound {
			if _, isName := env.names[id.Name]; !isName {
				if p := fv.v.findPackageByName(id.Name, env.pkg); p != nil && !fv.isLocalName(env, id.Name) {
					if o := p.Scope().Lookup(x.Name); o != nil {
						if v, ok := fv.objVal(env, o); ok {
							return v
						}
					}
				}
			}
		}
	}
	base := fv.evalSpec(env, x.X)
	st := fv.stateOf(env, base)
	return fv.selectField(st, base, x.Name)
}

func (fv *FuncVC) isLocalName(env *SpecEnv, name string) bool {
	if env.fr == nil {
		return false
	}
	for _, p := range env.fr.fn.Params {
		if p.Name() == name {
			return true
		}
	}
	for _, p := range env.fr.fn.FreeVars {
		if p.Name() == name {
			return true
		}
	}
	return false
}

func (fv *FuncVC) selectField(st *State, base Val, name string) Val {
	if base.T == nil {
		engineErr("selector .%s on untyped value", name)
	}
	// special components
	if isTime(base.T) {
		switch name {
		case "t", "instant":
			return Val{T: intT, C: []string{base.C[0]}}
		case "loc":
			return Val{T: intT, C: []string{base.C[1]}}
		}
	}
	t := base.T
	if iface, ok := t.Underlying().(*types.Interface); ok {
		_ = iface
		switch name {
		case "tag":
			return intVal(base.C[0])
		case "pay":
			return intVal(base.C[1])
		}
		engineErr("field .%s selected on interface value of type %v; use x.(*T).%s", name, t, name)
	}
	if sl, ok := t.Underlying().(*types.Slice); ok {
		_ = sl
		switch name {
		case "arr":
			return intVal(base.C[0])
		case "off":
			return intVal(base.C[1])
		case "len":
			return intVal(base.C[2])
		}
	}
	isPtr := false
	if p, ok := t.Underlying().(*types.Pointer); ok {
		t = p.Elem()
		isPtr = true
	}
	if !isStructLike(t) {
		engineErr("selector .%s on non-struct type %v", name, base.T)
	}
	path := fv.fieldPath(t, name)
	if path == nil {
		engineErr("type %v has no field %s", t, name)
	}
	cur := base
	curT := t
	curPtr := isPtr
	for _, idx := range path {
		s := curT.Underlying().(*types.Struct)
		ft := s.Field(idx).Type()
		var nv Val
		if curPtr {
			fa := &Addr{Kind: AField, Base: cur.C[0], StructT: curT, Field: idx, T: ft}
			nv = fv.load(st, fa)
			fv.boundLoadFacts(nv, ft, st, fa)
			// embedded struct by value inside a pointer: keep addressing through fld term for nested selection
			if isStructLike(ft) {
				nv = Val{T: types.NewPointer(ft), C: []string{fv.fldTerm(curT, idx, cur.C[0])}}
				cur = nv
				curT = ft
				curPtr = true
				continue
			}
		} else {
			lo, hi := fv.m.FieldRange(s, idx)
			nv = Val{T: ft, C: cur.C[lo:hi]}
		}
		nv.T = ft
		cur = nv
		curT = ft
		curPtr = false
		if p, ok := ft.Underlying().(*types.Pointer); ok && isStructLike(p.Elem()) {
			curT = p.Elem()
			curPtr = true
		}
	}
	// if we ended on an embedded struct addressed by pointer, load it as value
	if pt, ok := cur.T.(*types.Pointer); ok && curPtr && isStructLike(pt.Elem()) && len(path) > 0 {
		s := t
		_ = s
	}
	cur.St = base.St
	if fv.binderDepth == 0 && cur.T != nil {
		fv.typeFacts(Val{T: cur.T, C: cur.C}, st, "true")
	}
	return cur
}

func (fv *FuncVC) evalIndex(env *SpecEnv, x *SIndex) Val {
	base := fv.evalSpec(env, x.X)
	idx := fv.evalSpec(env, x.I)
	st := fv.stateOf(env, base)
	if base.T == nil {
		engineErr("index on untyped value")
	}
	switch t := base.T.Underlying().(type) {
	case *types.Slice:
		a := &Addr{Kind: AElem, Arr: base.C[0], Idx: sidx(base.C[1], idx.One()), T: t.Elem()}
		v := fv.load(st, a)
		v.T = t.Elem()
		v.St = base.St
		fv.boundLoadFacts(v, t.Elem(), st, a)
		return v
	case *types.Map:
		// Go semantics: zero value when the key is absent (or the map is nil)
		k := fv.mapKeyTerm(idx)
		bterm := base.One()
		wrap := func(s string) string { return s }
		if len(bterm) > 60 || len(k) > 60 {
			// share the (large) map and key terms with an SMT let
			fv.ctx.nfresh++
			mv, kv := fmt.Sprintf("m!q%d", fv.ctx.nfresh), fmt.Sprintf("k!q%d", fv.ctx.nfresh)
			b0, k0 := bterm, k
			wrap = func(s string) string { return fmt.Sprintf("(let ((%s %s) (%s %s)) %s)", mv, b0, kv, k0, s) }
			bterm, k = mv, kv
		}
		dom := And(Not(Eq(bterm, "0")), Select(Select(fv.m.heapGet(st, fv.m.MapDomKey(t)), bterm), k))
		zero := fv.m.Zero(t.Elem())
		var cs []string
		for j, vk := range fv.m.MapValKeys(t) {
			cs = append(cs, wrap(Ite(dom, Select(Select(fv.m.heapGet(st, vk), bterm), k), zero.C[j])))
		}
		return Val{T: t.Elem(), C: cs, St: base.St}
	case *SeqType:
		var cs []string
		for _, c := range base.C[1:] {
			cs = append(cs, Select(c, idx.One()))
		}
		return Val{T: t.Elem, C: cs}
	case *SetType:
		return boolVal(Select(base.C[0], fv.mapKeyTerm(idx)))
	case *types.Basic:
		return Val{T: types.Typ[types.Uint8], C: []string{App("sat", base.One(), idx.One())}}
	}
	engineErr("index on %v", base.T)
	return Val{}
}

func (fv *FuncVC) seqConcat(env *SpecEnv, x *SBin) Val {
	a := fv.evalSpec(env, x.X)
	st, ok := a.T.(*SeqType)
	if !ok {
		engineErr("++ needs a seq on the left")
	}
	lit, ok := x.Y.(*SSeqLit)
	if !ok {
		engineErr("++ needs a sequence literal on the right")
	}
	cur := a
	for _, el := range lit.Elems {
		ev := fv.evalSpec(env, el)
		ev, _ = fv.unify(ev, fv.m.Zero(st.Elem))
		n := Val{T: a.T, C: make([]string, len(cur.C))}
		n.C[0] = fmt.Sprintf("(+ %s 1)", cur.C[0])
		for i := range ev.C {
			n.C[i+1] = Store(cur.C[i+1], cur.C[0], ev.C[i])
		}
		cur = n
	}
	return cur
}

func (fv *FuncVC) evalCall(env *SpecEnv, x *SCall) Val {
	if id, ok := x.Fun.(*SIdent); ok {
		switch id.Name {
		case "old":
			ne := env.clone()
			if !env.inOld {
				ne.nowSt = env.cur
			}
			ne.cur = env.old
			ne.inOld = true
			v := fv.evalSpec(ne, x.Args[0])
			if v.St == nil {
				v.St = env.old
			}
			return v
		case "now":
			// now(e) inside old(..): e is evaluated in the current state (e.g. old(member(l, now(xs[j]))))
			if !env.inOld || env.nowSt == nil {
				return fv.evalSpec(env, x.Args[0])
			}
			ne := env.clone()
			ne.cur = env.nowSt
			ne.inOld = false
			v := fv.evalSpec(ne, x.Args[0])
			if v.St == nil {
				v.St = env.nowSt
			}
			return v
		case "len":
			v := fv.evalSpec(env, x.Args[0])
			switch t := v.T.Underlying().(type) {
			case *types.Slice:
				return intVal(v.C[2])
			case *types.Basic:
				return intVal(App("slen", v.One()))
			case *SeqType:
				return intVal(v.C[0])
			case *types.Map:
				fv.uf("maplen", []Sort{fv.m.MapDomKey(t).Sort, SInt}, SInt)
				return intVal(App("maplen", fv.m.heapGet(fv.stateOf(env, v), fv.m.MapDomKey(t)), v.One()))
			}
			engineErr("len of %v", v.T)
		case "runes":
			return intVal(App("srunes", fv.evalSpec(env, x.Args[0]).One()))
		case "cat":
			a, b := fv.evalSpec(env, x.Args[0]), fv.evalSpec(env, x.Args[1])
			return Val{T: stringT, C: []string{App("scat", a.One(), b.One())}}
		case "substr":
			a := fv.evalSpec(env, x.Args[0])
			return Val{T: stringT, C: []string{App("ssub", a.One(), fv.evalSpec(env, x.Args[1]).One(), fv.evalSpec(env, x.Args[2]).One())}}
		case "last":
			v := fv.evalSpec(env, x.Args[0])
			if st, ok := v.T.(*SeqType); ok {
				var cs []string
				for _, c := range v.C[1:] {
					cs = append(cs, Select(c, fmt.Sprintf("(- %s 1)", v.C[0])))
				}
				return Val{T: st.Elem, C: cs}
			}
			engineErr("last of %v", v.T)
		case "seqeq":
			a, b := fv.evalSpec(env, x.Args[0]), fv.evalSpec(env, x.Args[1])
			return boolVal(fv.seqEq(env, a, b))
		case "in":
			// in(k, m): key in map domain / set membership
			k := fv.evalSpec(env, x.Args[0])
			mv := fv.evalSpec(env, x.Args[1])
			switch t := mv.T.Underlying().(type) {
			case *types.Map:
				bterm, kt := mv.One(), fv.mapKeyTerm(k)
				if len(bterm) > 60 {
					fv.ctx.nfresh++
					mvn := fmt.Sprintf("m!q%d", fv.ctx.nfresh)
					d := Select(Select(fv.m.heapGet(fv.stateOf(env, mv), fv.m.MapDomKey(t)), mvn), kt)
					return boolVal(fmt.Sprintf("(let ((%s %s)) %s)", mvn, bterm, And(Not(Eq(mvn, "0")), d)))
				}
				d := Select(Select(fv.m.heapGet(fv.stateOf(env, mv), fv.m.MapDomKey(t)), bterm), kt)
				return boolVal(And(Not(Eq(bterm, "0")), d))
			case *SetType:
				return boolVal(Select(mv.C[0], fv.mapKeyTerm(k)))
			}
			engineErr("in(k, m): m is %v", mv.T)
		case "rawget":
			// rawget(m, k): stored value of key k (unspecified if absent); usable in triggers
			mv := fv.evalSpec(env, x.Args[0])
			k := fv.evalSpec(env, x.Args[1])
			mt, ok := mv.T.Underlying().(*types.Map)
			if !ok {
				engineErr("rawget(m, k): m is %v", mv.T)
			}
			var cs []string
			for _, vk := range fv.m.MapValKeys(mt) {
				cs = append(cs, Select(Select(fv.m.heapGet(fv.stateOf(env, mv), vk), mv.One()), fv.mapKeyTerm(k)))
			}
			return Val{T: mt.Elem(), C: cs, St: mv.St}
		case "typeis":
			// typeis(x, T): dynamic type of interface value x is T
			v := fv.evalSpec(env, x.Args[0])
			tt := specExprText(x.Args[1])
			t, err := fv.v.ResolveType(tt, env.pkg)
			if err != nil {
				engineErr("typeis: %v", err)
			}
			return boolVal(Eq(v.C[0], fv.typeID(t)))
		case "isnil":
			v := fv.evalSpec(env, x.Args[0])
			return boolVal(Eq(v.C[0], "0"))
		case "nilptr":
			// nilptr(x): the interface value x holds no object - it is nil or a typed nil pointer (payload 0)
			v := fv.evalSpec(env, x.Args[0])
			if _, ok := v.T.Underlying().(*types.Interface); !ok || len(v.C) != 2 {
				engineErr("nilptr(..) takes an interface value")
			}
			return boolVal(Eq(v.C[1], "0"))
		case "local":
			// local(x): the current value of the variable x at the program point of a `checks` clause or invariant, also when x
			// is a parameter (a bare parameter name in a post-condition denotes its entry value)
			id, ok := x.Args[0].(*SIdent)
			if !ok {
				engineErr("local(..) takes a variable name")
			}
			if v, ok := fv.resolveSourceName(env, id.Name); ok {
				return v
			}
			engineErr("unresolved name %q", id.Name)
		case "allocated":
			v := fv.evalSpec(env, x.Args[0])
			return boolVal(fmt.Sprintf("(and (> %s 0) (< %s %s))", v.C[0], v.C[0], env.cur.cnt))
		case "fresh":
			// fresh(p): p was allocated during the call
			v := fv.evalSpec(env, x.Args[0])
			return boolVal(fmt.Sprintf("(and (>= %s %s) (< %s %s))", v.C[0], env.old.cnt, v.C[0], env.cur.cnt))
		case "deref":
			// deref(p): the value a pointer to a non-struct type points at, in the state at hand
			v := fv.evalSpec(env, x.Args[0])
			pt, ok := v.T.Underlying().(*types.Pointer)
			if !ok {
				engineErr("deref of a non-pointer")
			}
			r := fv.load(fv.stateOf(env, v), fv.addrOf(v.One(), pt.Elem()))
			r.T = pt.Elem()
			r.St = v.St
			return r
		case "refid":
			// refid(p): the allocation number of the object a pointer (or the pointer held by an interface value) denotes;
			// objects allocated later have larger numbers
			v := fv.evalSpec(env, x.Args[0])
			return intVal(v.C[len(v.C)-1])
		case "instant":
			v := fv.evalSpec(env, x.Args[0])
			return intVal(v.C[0])
		case "tzloc":
			v := fv.evalSpec(env, x.Args[0])
			return intVal(v.C[1])
		case "dec":
			v := fv.evalSpec(env, x.Args[0])
			return Val{T: types.Typ[types.Float64], C: []string{v.C[0]}}
		case "toreal":
			v := fv.evalSpec(env, x.Args[0])
			return Val{T: types.Typ[types.Float64], C: []string{toReal(v.C[0])}}
		case "same":
			// same(T::f, ...): the heap arrays are exactly their entry versions (no object, old or new, has the field written)
			var es []string
			for _, a := range x.Args {
				for _, hk := range fv.readKeys(specExprText(a), env.pkg) {
					cur, old := fv.m.heapGet(env.cur, hk), fv.m.heapGet(env.old, hk)
					if cur != old {
						es = append(es, Eq(cur, old))
					}
				}
			}
			return boolVal(And(es...))
		case "unchanged":
			// unchanged(T::f, ...) heap arrays equal to their entry versions
			// every object that existed at entry has its entry content (objects allocated since are not constrained)
			var es []string
			for _, a := range x.Args {
				for _, hk := range fv.readKeys(specExprText(a), env.pkg) {
					cur, old := fv.m.heapGet(env.cur, hk), fv.m.heapGet(env.old, hk)
					if cur == old {
						continue
					}
					if strings.HasPrefix(string(hk.Sort), "(Array Int ") {
						fv.ctx.nfresh++
						r := fmt.Sprintf("r!q%d", fv.ctx.nfresh)
						es = append(es, fmt.Sprintf("(forall ((%s Int)) (! (=> (< %s %s) (= (select %s %s) (select %s %s))) :pattern ((select %s %s))))", r, r, env.old.cnt, cur, r, old, r, cur, r))
					} else {
						es = append(es, Eq(cur, old))
					}
				}
			}
			return boolVal(And(es...))
		}
		if pd, ok := fv.v.pures[id.Name]; ok {
			return fv.applyPure(env, pd, x.Args)
		}
		// conversion T(x)
		if len(x.Args) == 1 {
			if t, err := fv.v.ResolveType(id.Name, env.pkg); err == nil {
				v := fv.evalSpec(env, x.Args[0])
				if len(v.C) == len(fv.m.Flatten(t)) {
					return Val{T: t, C: v.C, St: v.St}
				}
				engineErr("conversion to %v from a value of different shape", t)
			}
		}
		// Go function of the current package
		if env.pkg != nil {
			if fn := fv.v.funcsByKey[env.pkg.Path()+"::"+id.Name]; fn != nil {
				var args []Val
				for _, a := range x.Args {
					args = append(args, fv.evalSpec(env, a))
				}
				return fv.specGoCall(env, fn, args)
			}
		}
		engineErr("unknown spec function %s", id.Name)
	}
	if sel, ok := x.Fun.(*SSel); ok {
		// conversion pkg.T(x)
		if id, ok := sel.X.(*SIdent); ok && len(x.Args) == 1 && !fv.isLocalName(env, id.Name) {
			if _, isBound := env.bound[id.Name]; !isBound {
				if t, err := fv.v.ResolveType(id.Name+"."+sel.Name, env.pkg); err == nil {
					v := fv.evalSpec(env, x.Args[0])
					if len(v.C) == len(fv.m.Flatten(t)) {
						return Val{T: t, C: v.C, St: v.St}
					}
					engineErr("conversion to %v from a value of different shape", t)
				}
			}
		}
		// pkg.Func(...) or recv.Method(...)
		if id, ok := sel.X.(*SIdent); ok && !fv.isLocalName(env, id.Name) {
			if _, isBound := env.bound[id.Name]; !isBound {
				if _, isName := env.names[id.Name]; !isName {
					if p := fv.v.findPackageByName(id.Name, env.pkg); p != nil {
						if fn := fv.v.funcsByKey[p.Path()+"::"+sel.Name]; fn != nil {
							var args []Val
							for _, a := range x.Args {
								args = append(args, fv.evalSpec(env, a))
							}
							return fv.specGoCall(env, fn, args)
						}
					}
				}
			}
		}
		recv := fv.evalSpec(env, sel.X)
		var args []Val
		for _, a := range x.Args {
			args = append(args, fv.evalSpec(env, a))
		}
		return fv.specMethodCall(env, recv, sel.Name, args)
	}
	engineErr("unsupported call in spec")
	return Val{}
}

func specExprText(e SExpr) string {
	switch x := e.(type) {
	case *SIdent:
		return x.Name
	case *SSel:
		return specExprText(x.X) + "." + x.Name
	case *SUn:
		if x.Op == "*" {
			return "*" + specExprText(x.X)
		}
	case *SBin:
		if x.Op == "*" {
			return specExprText(x.X) + "*" + specExprText(x.Y)
		}
	case *SStrLit:
		return x.V
	}
	engineErr("expected a type or T::field name")
	return ""
}

func (fv *FuncVC) seqEq(env *SpecEnv, a, b Val) string {
	la, ea := fv.seqView(env, a)
	lb, eb := fv.seqView(env, b)
	if len(ea(("0"))) != len(eb("0")) {
		engineErr("seqeq: element shapes differ")
	}
	fv.ctx.nfresh++
	i := fmt.Sprintf("i!q%d", fv.ctx.nfresh)
	var es []string
	xa, xb := ea(i), eb(i)
	for j := range xa {
		es = append(es, Eq(xa[j], xb[j]))
	}
	return And(Eq(la, lb), fmt.Sprintf("(forall ((%s Int)) (=> (and (<= 0 %s) (< %s %s)) %s))", i, i, i, la, And(es...)))
}

// seqView gives length and an element accessor for slices and spec sequences.
func (fv *FuncVC) seqView(env *SpecEnv, v Val) (string, func(i string) []string) {
	switch t := v.T.Underlying().(type) {
	case *types.Slice:
		st := fv.stateOf(env, v)
		keys := fv.m.ElemKeys(t.Elem())
		return v.C[2], func(i string) []string {
			var cs []string
			for _, k := range keys {
				cs = append(cs, Select(Select(fv.m.heapGet(st, k), v.C[0]), sidx(v.C[1], i)))
			}
			return cs
		}
	case *SeqType:
		return v.C[0], func(i string) []string {
			var cs []string
			for _, c := range v.C[1:] {
				cs = append(cs, Select(c, i))
			}
			return cs
		}
	}
	engineErr("not a sequence: %v", v.T)
	return "", nil
}

// applyPure: user-defined spec function / predicate.
func (fv *FuncVC) applyPure(env *SpecEnv, pd *PureDef, argExprs []SExpr) Val {
	if len(argExprs) != len(pd.Params) {
		engineErr("%s expects %d arguments", pd.Name, len(pd.Params))
	}
	var pkg *types.Package
	if p, ok := fv.v.allPkgs[pd.Pkg]; ok {
		pkg = p.Types
	}
	var args []Val
	for i, a := range argExprs {
		v := fv.evalSpec(env, a)
		pt, err := fv.v.ResolveType(pd.Params[i].Type, pkg)
		if err != nil {
			engineErr("%s: %v", pd.Name, err)
		}
		if v.T == untypedNil {
			v = fv.m.Zero(pt)
		}
		if v.T == untypedInt {
			if fv.m.Flatten(pt)[0].Sort == SReal {
				v = Val{T: pt, C: []string{toReal(v.C[0])}}
			}
		}
		if len(v.C) != len(fv.m.Flatten(pt)) {
			engineErr("%s: argument %d has wrong shape (%v for %v)", pd.Name, i, v.T, pt)
		}
		st := v.St
		v.T = pt
		v.St = st
		// name large argument terms before macro expansion duplicates them
		if pd.Body != nil && fv.binderDepth == 0 {
			v.C = append([]string(nil), v.C...)
			cs := fv.m.Flatten(pt)
			for j := range v.C {
				if len(v.C[j]) > 120 {
					if n, ok := fv.appNames[v.C[j]]; ok {
						v.C[j] = n
						continue
					}
					n := fv.ctx.Fresh("arg."+pd.Name, cs[j].Sort)
					fv.ctx.Assume(Eq(n, v.C[j]))
					if fv.appNames == nil {
						fv.appNames = map[string]string{}
					}
					fv.appNames[v.C[j]] = n
					v.C[j] = n
				}
			}
		}
		args = append(args, v)
	}
	if pd.Body != nil && pd.Opaque && !fv.reveals(pd.Name) {
		// opaque predicate: an uninterpreted function of its arguments and of the heap arrays its body reads
		keys := fv.footprint(pd, pkg, args)
		rt, err := fv.v.ResolveType(pd.Ret, pkg)
		if err != nil {
			engineErr("%s: %v", pd.Name, err)
		}
		return fv.pureAppKeys(env.cur, "sp$"+pd.Name, keys, args, rt)
	}
	if pd.Body != nil {
		// macro expansion
		// hygiene: the macro body sees its parameters, not bound variables of the call site with the same names
		nb := map[string]Val{}
		for k, v := range env.bound {
			nb[k] = v
		}
		ne := &SpecEnv{fv: fv, names: map[string]Val{}, cur: env.cur, old: env.old, pkg: pkg, bound: nb, inOld: env.inOld}
		for i, p := range pd.Params {
			ne.names[p.Name] = args[i]
			delete(nb, p.Name)
		}
		return fv.evalSpec(ne, pd.Body)
	}
	rt, err := fv.v.ResolveType(pd.Ret, pkg)
	if err != nil {
		engineErr("%s: %v", pd.Name, err)
	}
	return fv.pureAppNamed(env.cur, "sp$"+pd.Name, pd.Reads, pkg, args, rt)
}

// specGoCall: call a Go function from a spec expression. The function must have a `pure`
// contract (uninterpreted) or be inlineable without loops; evaluation generates no obligations.
func (fv *FuncVC) specGoCall(env *SpecEnv, fn *ssa.Function, args []Val) Val {
	rt := fv.resultType(fn)
	if con := fv.v.contracts[fn]; con != nil && con.Pure {
		for i := range args {
			if i < len(fn.Params) {
				if args[i].T == untypedNil {
					args[i] = fv.m.Zero(fn.Params[i].Type())
				}
				args[i].T = fn.Params[i].Type()
			}
		}
		res := fv.pureApp(env.cur, fn, con, args, rt)
		fv.pureEnsuresInstance(env, fn, con, args, res, rt)
		return res
	}
	fv.specMode++
	defer func() { fv.specMode-- }()
	st := env.cur.Clone()
	fr := &Frame{depth: 0}
	if !fv.canInline(fr, fn, fv.v.contracts[fn]) {
		engineErr("spec calls Go function %s which is neither pure-contracted nor inlineable", fn)
	}
	for i := range args {
		if i < len(fn.Params) && args[i].T == untypedNil {
			args[i] = fv.m.Zero(fn.Params[i].Type())
		}
	}
	dummy := fv.newFrame(fn, 0)
	return fv.inline(dummy, st, "true", fn, args, nil, rt, "")
}

func (fv *FuncVC) specMethodCall(env *SpecEnv, recv Val, name string, args []Val) Val {
	t := recv.T
	if t == nil {
		engineErr("method call on untyped value")
	}
	st := fv.stateOf(env, recv)
	if _, isIface := t.Underlying().(*types.Interface); isIface {
		if dt, ok := fv.typeByID[recv.C[0]]; ok {
			// statically known dynamic type
			rv := fv.unbox(st, recv.C[1], dt)
			rv.T = dt
			rv.St = recv.St
			return fv.specMethodCall(env, rv, name, args)
		}
		// interface method with pure interface contract?
		if n, ok := types.Unalias(t).(*types.Named); ok && n.Obj().Pkg() != nil {
			if con := fv.v.ifaceCon[n.Obj().Pkg().Path()+"."+n.Obj().Name()+"."+name]; con != nil && con.Pure {
				obj, _, _ := types.LookupFieldOrMethod(t, true, n.Obj().Pkg(), name)
				sig := obj.Type().(*types.Signature)
				var rt types.Type = sig.Results()
				if sig.Results().Len() == 1 {
					rt = sig.Results().At(0).Type()
				}
				for i := range args {
					if i < sig.Params().Len() {
						args[i].T = sig.Params().At(i).Type()
					}
				}
				return fv.pureAppNamed(st, "pf$"+sanitize(strings.TrimPrefix(con.Pkg, modulePath+"/")+"."+con.Key), con.Reads, n.Obj().Pkg(), append([]Val{recv}, args...), rt)
			}
		}
		impls := fv.v.Implementers(t)
		var cands []types.Type
		for _, it := range impls {
			if !isTestType(it) {
				cands = append(cands, it)
			}
		}
		if len(cands) != 1 || isOpenInterface(t) {
			engineErr("spec method call %s on interface %v with %d implementers (or open interface)", name, t, len(cands))
		}
		rv := fv.unbox(st, recv.C[1], cands[0])
		rv.T = cands[0]
		recv = rv
		t = cands[0]
	}
	ms := fv.v.prog.MethodSets.MethodSet(t)
	var sel *types.Selection
	for i := 0; i < ms.Len(); i++ {
		if ms.At(i).Obj().Name() == name {
			sel = ms.At(i)
		}
	}
	if sel == nil {
		if _, isPtr := t.(*types.Pointer); !isPtr {
			// addressable receiver not modelled in specs
		}
		engineErr("type %v has no method %s", t, name)
	}
	fn := fv.v.prog.MethodValue(sel)
	if fn == nil {
		engineErr("method %s has no body", name)
	}
	ne := env.clone()
	ne.cur = st
	return fv.specGoCall(ne, fn, append([]Val{recv}, args...))
}

// ---- postconditions

func (fv *FuncVC) checkPost(fr *Frame, b *ssa.BasicBlock, st *State, reach string, vals []Val, pos string) {
	con := fr.con
	if con == nil {
		return
	}
	if coverReturns && fr.depth <= 1 {
		// vacuity self-test: is this return point reachable under the precondition and the assumed contracts? (a return
		// excluded by the precondition is expected; one excluded by a contradiction between assumed facts is a hole)
		fv.nRetCover++
		fv.cover(fmt.Sprintf("return@%s#%d", pos, fv.nRetCover), reach, "return point reachable", pos)
	}
	env := fv.frameEnv(fr, b, st)
	rt := fv.resultType(fr.fn)
	var cs []string
	for _, v := range vals {
		cs = append(cs, v.C...)
	}
	fv.bindResults(env.names, Val{T: rt, C: cs}, rt)
	// parameter names in post-conditions denote entry values (Go parameters are mutable)
	for _, p := range fr.fn.Params {
		if _, clash := env.names[p.Name()]; !clash {
			env.names[p.Name()] = fv.get(fr, p)
		}
	}
	// named results
	for _, e := range con.Ensures {
		env.useWitness = true
		t := fv.evalClause(env, e)
		env.useWitness = false
		if e.Trusted {
			fv.assumed["trusted clause "+shortFuncName(fr.fn)+" ["+e.Label+"] "+e.Text] = true
			fv.ctx.Assume(Implies(reach, t))
			continue
		}
		fv.oblige("post", clauseLabel(e), reach, t, e.Text, pos)
		// later clauses may rely on earlier ones (each is still an obligation of its own)
		fv.ctx.Assume(Implies(reach, t))
	}
	for _, e := range fr.extraEnsures {
		t := fv.evalClause(env, e)
		fv.oblige("refine", clauseLabel(e), reach, t, e.Text, pos)
	}
	fv.retReach = append(fv.retReach, reach)
}

func (fv *FuncVC) reveals(name string) bool {
	for _, r := range fv.revealed {
		if r == name {
			return true
		}
	}
	return false
}

// footprint: the heap keys the body of an opaque predicate reads (computed by evaluating the body once
// on placeholder arguments with read-recording on), in a fixed order.
func (fv *FuncVC) footprint(pd *PureDef, pkg *types.Package, args []Val) []HeapKey {
	if ks, ok := fv.footprints[pd.Name]; ok {
		return ks
	}
	saved := fv.m.recording
	rec := map[string]HeapKey{}
	fv.m.recording = rec
	fv.binderDepth++ // no facts while evaluating on placeholders
	scratch := &State{heap: map[string]string{}, epoch: 0, cnt: "cnt0", ghost: map[string]Val{}}
	ne := &SpecEnv{fv: fv, names: map[string]Val{}, cur: scratch, old: scratch, pkg: pkg, bound: map[string]Val{}}
	for i, p := range pd.Params {
		ph := Val{T: args[i].T, C: make([]string, len(args[i].C))}
		cs := fv.m.Flatten(args[i].T)
		for j := range ph.C {
			ph.C[j] = fv.ctx.Fresh("ph."+pd.Name, cs[j].Sort)
		}
		ne.names[p.Name] = ph
	}
	func() {
		defer func() {
			fv.binderDepth--
			fv.m.recording = saved
		}()
		fv.evalSpec(ne, pd.Body)
	}()
	var names []string
	for k := range rec {
		names = append(names, k)
	}
	sort.Strings(names)
	ks := make([]HeapKey, 0, len(names))
	for _, n := range names {
		ks = append(ks, rec[n])
		if saved != nil {
			saved[n] = rec[n]
		}
	}
	if fv.footprints == nil {
		fv.footprints = map[string][]HeapKey{}
	}
	fv.footprints[pd.Name] = ks
	return ks
}

func (fv *FuncVC) pureAppKeys(st *State, base string, keys []HeapKey, args []Val, rt types.Type) Val {
	var as []string
	var sorts []Sort
	for _, a := range args {
		cs := fv.m.Flatten(a.T)
		for i, c := range a.C {
			as = append(as, c)
			sorts = append(sorts, cs[i].Sort)
		}
	}
	nargs := len(as)
	for _, hk := range keys {
		as = append(as, fv.m.heapGet(st, hk))
		sorts = append(sorts, hk.Sort)
	}
	basAs, guard := fv.allocBaseArgs(st, keys, args, as, nargs)
	cs := fv.m.Flatten(rt)
	res := Val{T: rt, C: make([]string, len(cs))}
	for i, c := range cs {
		name := fmt.Sprintf("%s%s", base, sanitize(c.Path))
		fv.ctx.Decl(name, sorts, c.Sort)
		res.C[i] = App(name, as...)
		if basAs != nil {
			res.C[i] = Ite(guard, App(name, basAs...), res.C[i])
		}
	}
	return res
}

// allocBaseArgs: if st differs from its allocation base only by writes to objects allocated after the
// base, a pure application whose reference arguments all exist in the base has the value it has in
// the base (every object reachable from them existed then, and none of those was written). Returns
// the argument list over the base heap and the guard, or nil when there is nothing to gain.
func (fv *FuncVC) allocBaseArgs(st *State, keys []HeapKey, args []Val, as []string, nargs int) ([]string, string) {
	if st.abase == nil || fv.m.recording != nil {
		return nil, ""
	}
	bas := append([]string(nil), as[:nargs]...)
	differs := false
	for i, hk := range keys {
		b := fv.m.heapGet(st.abase, hk)
		if b != as[nargs+i] {
			differs = true
		}
		bas = append(bas, b)
	}
	if !differs {
		return nil, ""
	}
	var gs []string
	for _, a := range args {
		cs := fv.m.Flatten(a.T)
		for i, c := range a.C {
			switch cs[i].Kind {
			case "ref", "slice.arr", "if.pay", "time.loc", "opaque":
				gs = append(gs, fmt.Sprintf("(< %s %s)", c, st.abase.cnt))
			}
		}
	}
	return bas, And(gs...)
}

// pureEnsuresInstance: the post-conditions of a pure function hold for every application (given its
// pre-condition). At top level the instance is assumed; under a binder it becomes a side condition of the
// innermost enclosing quantifier (an instance of a valid formula, so adding it changes no truth value).
func (fv *FuncVC) pureEnsuresInstance(env *SpecEnv, fn *ssa.Function, con *Contract, args []Val, res Val, rt types.Type) {
	if len(con.Ensures) == 0 || fv.pureEnsDepth > 0 || fv.m.recording != nil {
		return
	}
	fv.pureEnsDepth++
	defer func() { fv.pureEnsDepth-- }()
	ne := &SpecEnv{fv: fv, names: map[string]Val{}, cur: env.cur, old: env.cur, pkg: pkgOf(fn), bound: env.bound, con: con}
	for i, p := range fn.Params {
		if i < len(args) {
			ne.names[p.Name()] = args[i]
		}
	}
	fv.bindResults(ne.names, res, rt)
	var pre, post []string
	for _, r := range con.Requires {
		pre = append(pre, fv.evalClause(ne, r))
	}
	for _, e := range con.Ensures {
		if e.Local {
			continue
		}
		post = append(post, fv.evalClause(ne, e))
	}
	if len(post) == 0 {
		return
	}
	inst := Implies(And(pre...), And(post...))
	if fv.binderDepth == 0 || !boundVarRe.MatchString(inst) {
		if fv.binderDepth == 0 {
			fv.ctx.Assume(inst)
		} else {
			fv.ctx.axioms = append(fv.ctx.axioms, inst)
		}
		return
	}
	if len(fv.sideStack) > 0 {
		fv.sideStack[len(fv.sideStack)-1] = append(fv.sideStack[len(fv.sideStack)-1], inst)
	}
}

// boundLoadFacts: heap closure for references read under a binder (where the ordinary type facts of a load are
// not assumed): a reference stored in an object that exists in a state was allocated before that state (objects
// allocated later by callees that assign nothing are described by the same heap version at fresh indices, hence the
// guard on the object). Stated once per heap
// version and allocation counter as a quantified fact triggered by reads of that version.
func (fv *FuncVC) boundLoadFacts(v Val, t types.Type, st *State, a *Addr) {
	if fv.binderDepth == 0 || st == nil || st.cnt == "" {
		return
	}
	if _, ok := t.Underlying().(*types.Pointer); !ok {
		return
	}
	if len(v.C) != 1 || !boundVarRe.MatchString(v.C[0]) {
		return
	}
	var h, ax string
	switch a.Kind {
	case AField:
		h = fv.m.heapGet(st, fv.m.FieldKeys(a.StructT, a.Field)[0])
		ax = fmt.Sprintf("(forall ((o!c Int)) (! (=> (< o!c %s) (and (>= (select %s o!c) 0) (< (select %s o!c) %s))) :pattern ((select %s o!c))))", st.cnt, h, h, st.cnt, h)
	case AElem:
		h = fv.m.heapGet(st, fv.m.ElemKeys(a.T)[0])
		ax = fmt.Sprintf("(forall ((o!c Int) (i!c Int)) (! (=> (< o!c %s) (and (>= (select (select %s o!c) i!c) 0) (< (select (select %s o!c) i!c) %s))) :pattern ((select (select %s o!c) i!c))))", st.cnt, h, h, st.cnt, h)
	default:
		return
	}
	if fv.closureDone == nil {
		fv.closureDone = map[string]bool{}
	}
	if fv.closureDone[h+"|"+st.cnt] {
		return
	}
	fv.closureDone[h+"|"+st.cnt] = true
	fv.ctx.axioms = append(fv.ctx.axioms, ax)
}

// indexLoopCounter: for a loop whose header has exactly one integer phi that enters with the constant 0 and is increased by
// the constant 1 on every back edge, the value `phi - 1` (what the hidden index of the equivalent range loop would be)
func (fv *FuncVC) indexLoopCounter(fr *Frame, li *loopInfo) (Val, bool) {
	var found *ssa.Phi
	h := li.header
	for _, in := range h.Instrs {
		phi, ok := in.(*ssa.Phi)
		if !ok {
			break
		}
		if !monotoneCounter(h, phi) {
			continue
		}
		okShape := true
		for i, p := range h.Preds {
			e := phi.Edges[i]
			if h.Dominates(p) {
				inc, ok := e.(*ssa.BinOp)
				if !ok {
					okShape = false
					break
				}
				c, ok := inc.Y.(*ssa.Const)
				if !ok || c.Value == nil || c.Int64() != 1 {
					okShape = false
				}
			} else {
				c, ok := e.(*ssa.Const)
				if !ok || c.Value == nil || c.Int64() != 0 {
					okShape = false
				}
			}
		}
		if !okShape {
			continue
		}
		if found != nil {
			return Val{}, false // two candidates: ambiguous
		}
		found = phi
	}
	if found == nil {
		return Val{}, false
	}
	v := fv.get(fr, found)
	if len(v.C) != 1 {
		return Val{}, false
	}
	return Val{T: v.T, C: []string{simplifySub(v.C[0], "1")}}, true
}
