package main

// No-panic sweep (C04 / C16): every function of the listed packages gets the thin contract `nopanic` (unless it
// has a contract of its own) and one safety obligation per instruction that can panic: index / slice bounds, nil
// dereference, unchecked type assertion, integer division, explicit panic, and the preconditions of assumed
// dependency contracts (decimal division by zero, costly precision arguments, negative repeat counts ...).
//
// The property check verifies the functions listed in /verif/sweeps/<prop>.json ("claimed": functions all of whose
// obligations discharge on the tree the list was made from); `gocv sweep --prop X --update` recomputes that list
// and records, for every other function of the scope, why it is not covered. A function that is claimed and no
// longer discharges all its obligations is a violation; functions outside the list are never reported.

import (
	"encoding/json"
	"flag"
	"fmt"
	"go/constant"
	"go/types"
	"os"
	"path/filepath"
	"runtime"
	"sort"
	"strings"
	"time"

	"golang.org/x/tools/go/ssa"
)

type SweepConfig struct {
	Packages     []string `json:"packages"`      // package paths relative to the module
	ExcludeFuncs []string `json:"exclude_funcs"` // function key fragments never swept (generated visitors ...)
	ArityFuncs   []string `json:"arity_funcs"`   // wrappers "<func>:<kind>" that guarantee the argument count of the callback they are given
	MaxInstrs    int      `json:"max_instrs"`
	Uses         []string `json:"uses"` // axioms every swept function may rely on (each backed by an obligation of the property)
}

type SweepList struct {
	Claimed    []string          `json:"claimed"`
	NotCovered map[string]string `json:"not_covered"`
	MadeAt     string            `json:"made_at_repo_commit"`
}

// sweepContract: the implicit contract of a swept function
func (v *Verifier) sweepContract(fn *ssa.Function, arity map[*ssa.Function]string) *Contract {
	if c := v.contracts[fn]; c != nil {
		return c
	}
	con := &Contract{Pkg: pkgOf(fn).Path(), Key: localFuncKey(fn), Loops: map[int]*LoopSpec{}, Callbacks: map[string]*CallbackSpec{}, NoPanic: true, Uses: v.sweepUses}
	// receiver and pointer parameters of methods are non-nil where the function dereferences them unconditionally is
	// NOT assumed: a nil argument is an input like any other. Only the arity guarantee of the registration wrappers is.
	// type invariants of the inputs (assumptions of the sweep, listed in evidence): pointer receivers, pointer parameters to
	// struct types, function-typed parameters and the environment are non-nil - callers hand in values that exist; an
	// interface-typed value (XValue, any) may be nil and is NOT assumed non-nil
	for i, p := range fn.Params {
		n := p.Name()
		if n == "" || n == "_" {
			continue
		}
		req := ""
		switch t := p.Type().Underlying().(type) {
		case *types.Pointer:
			if _, isStruct := t.Elem().Underlying().(*types.Struct); isStruct || (i == 0 && fn.Signature.Recv() != nil) {
				req = n + " != nil"
			}
		case *types.Signature:
			req = n + " != nil"
		case *types.Interface:
			if n == "env" {
				req = "!isnil(" + n + ")"
			}
		}
		if req != "" {
			if e, err := ParseSpecExpr(req); err == nil {
				con.Requires = append(con.Requires, Clause{Expr: e, Text: req, Pos: "type invariant of the inputs (sweep assumption)"})
			}
		}
	}
	for _, f := range fn.FreeVars {
		// captured function values (the wrapped function of a registration wrapper) and pointers
		n := f.Name()
		if pt, ok := f.Type().Underlying().(*types.Pointer); ok {
			req := ""
			switch pt.Elem().Underlying().(type) {
			case *types.Signature:
				req = n + " != nil"
			}
			if req != "" {
				if e, err := ParseSpecExpr(req); err == nil {
					con.Requires = append(con.Requires, Clause{Expr: e, Text: req, Pos: "type invariant of the inputs (sweep assumption)"})
				}
			}
		} else if _, ok := f.Type().Underlying().(*types.Signature); ok {
			if e, err := ParseSpecExpr(n + " != nil"); err == nil {
				con.Requires = append(con.Requires, Clause{Expr: e, Text: n + " != nil", Pos: "type invariant of the inputs (sweep assumption)"})
			}
		}
	}
	if req, ok := arity[fn]; ok {
		e, err := ParseSpecExpr(req)
		if err == nil {
			con.Requires = append(con.Requires, Clause{Expr: e, Text: req, Pos: "arity guaranteed by the registration wrapper"})
		}
	}
	return con
}

// arityFacts: closures / functions handed to the argument-count wrappers get `len(args)` facts
func (v *Verifier) arityFacts(cfg SweepConfig) map[*ssa.Function]string {
	out := map[*ssa.Function]string{}
	kinds := map[string]string{}
	for _, a := range cfg.ArityFuncs {
		i := strings.LastIndex(a, ":")
		kinds[modulePath+"/"+a[:i]] = a[i+1:]
	}
	minInitial := int64(-1)
	initialBad := false
	var initialWrapper *ssa.Function
	defer func() {
		// the closure inside InitialTextFunction: every registration passes a constant minOther >= 0
		if initialWrapper != nil && !initialBad && minInitial >= 0 {
			for _, an := range initialWrapper.AnonFuncs {
				if len(an.Params) > 0 {
					out[an] = fmt.Sprintf("len(%s) >= %d", an.Params[len(an.Params)-1].Name(), minInitial+1)
				}
			}
		}
	}()
	for _, fn := range v.moduleFunctions(false) {
		for _, b := range fn.Blocks {
			for _, in := range b.Instrs {
				call, ok := in.(ssa.CallInstruction)
				if !ok || call.Common().StaticCallee() == nil {
					continue
				}
				kind, ok := kinds[funcKey(call.Common().StaticCallee())]
				if !ok {
					continue
				}
				args := call.Common().Args
				ci := func(i int) (int64, bool) {
					if i >= len(args) {
						return 0, false
					}
					c, ok := args[i].(*ssa.Const)
					if !ok || c.Value == nil {
						return 0, false
					}
					return constant.Int64Val(constant.ToInt(c.Value))
				}
				var target *ssa.Function
				last := args[len(args)-1]
				if ct, ok := last.(*ssa.ChangeType); ok {
					last = ct.X // a named function converted to the XFunc type
				}
				switch x := last.(type) {
				case *ssa.MakeClosure:
					target = x.Fn.(*ssa.Function)
				case *ssa.Function:
					target = x
				}
				if target == nil || len(target.Params) == 0 {
					continue
				}
				pn := target.Params[len(target.Params)-1].Name()
				switch kind {
				case "exact":
					if n, ok := ci(0); ok {
						out[target] = fmt.Sprintf("len(%s) == %d", pn, n)
					}
				case "min":
					if n, ok := ci(0); ok {
						out[target] = fmt.Sprintf("len(%s) >= %d", pn, n)
					}
				case "range":
					n, ok1 := ci(0)
					m, ok2 := ci(1)
					if ok1 && ok2 {
						out[target] = fmt.Sprintf("len(%s) >= %d && len(%s) <= %d", pn, n, pn, m)
					}
				case "initial":
					// InitialTextFunction(minOther, maxOther, f): wraps f behind MinAndMaxArgsCheck(minOther+1, maxOther+1, ..) and hands
					// f everything after the first argument; the wrapper's own closure sees at least minOther+1 arguments
					n, ok1 := ci(0)
					m, ok2 := ci(1)
					if ok1 && ok2 && n >= 0 {
						out[target] = fmt.Sprintf("len(%s) >= %d && len(%s) <= %d", pn, n, pn, m)
						if minInitial < 0 || n < minInitial {
							minInitial = n
						}
						initialWrapper = call.Common().StaticCallee()
					} else {
						initialBad = true
					}
				}
			}
		}
	}
	return out
}

func (v *Verifier) sweepScope(cfg SweepConfig) []*ssa.Function {
	var out []*ssa.Function
	for _, fn := range v.moduleFunctions(false) {
		p := pkgOf(fn)
		if p == nil || fn.Synthetic != "" || len(fn.Blocks) == 0 {
			continue
		}
		in := false
		for _, sp := range cfg.Packages {
			if p.Path() == modulePath+"/"+sp {
				in = true
			}
		}
		if !in {
			continue
		}
		k := shortKey(fn)
		skip := k == "" || strings.HasSuffix(k, "::init") || strings.Contains(k, "::init#")
		for _, ex := range cfg.ExcludeFuncs {
			if strings.Contains(k, ex) {
				skip = true
			}
		}
		if skip {
			continue
		}
		out = append(out, fn)
	}
	sort.Slice(out, func(i, j int) bool { return shortKey(out[i]) < shortKey(out[j]) })
	return out
}

// sweepOne generates and discharges the obligations of one function; returns the obligations and an engine
// problem (function outside the supported subset) if any.
func sweepOne(v *Verifier, fn *ssa.Function, con *Contract, prop, workdir string, timeout int) (obls []*Obligation, problem string) {
	defer func() {
		if r := recover(); r != nil {
			problem = fmt.Sprint(r)
			if ee, ok := r.(*EngineError); ok {
				problem = ee.Msg
			}
			obls = nil
		}
	}()
	fv := NewFuncVC(v, fn, con, prop)
	fv.VerifyTop()
	DischargeAll(fv.obls, workdir, timeout, runtime.NumCPU(), 0, false)
	return fv.obls, ""
}

func cmdSweep(args []string) int {
	fs := flag.NewFlagSet("sweep", flag.ExitOnError)
	prop := fs.String("prop", "", "property id")
	repo := fs.String("repo", "/repo", "repository")
	verif := fs.String("verif", "/verif", "verif dir")
	update := fs.Bool("update", false, "recompute the claimed list")
	only := fs.String("only", "", "only functions whose key contains this")
	timeout := fs.Int("timeout", 5, "solver timeout per obligation (s)")
	fs.Parse(args)
	var cfg PropConfig
	d, err := os.ReadFile(filepath.Join(*verif, "props", *prop+".json"))
	if err != nil {
		fmt.Fprintln(os.Stderr, "ENGINE ERROR:", err)
		return 2
	}
	json.Unmarshal(d, &cfg)
	if cfg.Sweep == nil {
		fmt.Fprintln(os.Stderr, "ENGINE ERROR: property has no sweep configuration")
		return 2
	}
	v, err := Load(*repo, cfg.Packages, map[string][]byte{}, filepath.Join(*verif, "contracts", "ext"))
	if err != nil {
		fmt.Fprintln(os.Stderr, "ENGINE ERROR: load:", err)
		return 2
	}
	workdir := filepath.Join(*verif, "work", "smt", *prop+"-sweep")
	os.RemoveAll(workdir)
	os.MkdirAll(workdir, 0o755)
	defer os.RemoveAll(workdir)
	v.sweepUses = cfg.Sweep.Uses
	arity := v.arityFacts(*cfg.Sweep)
	list := SweepList{NotCovered: map[string]string{}}
	start := time.Now()
	nObl := 0
	fastDischarge = true
	type job struct {
		k    string
		obls []*Obligation
	}
	var jobs []job
	var all []*Obligation
	for _, fn := range v.sweepScope(*cfg.Sweep) {
		k := shortKey(fn)
		if *only != "" && !strings.Contains(k, *only) {
			continue
		}
		nInstr := 0
		for _, b := range fn.Blocks {
			nInstr += len(b.Instrs)
		}
		if cfg.Sweep.MaxInstrs > 0 && nInstr > cfg.Sweep.MaxInstrs {
			list.NotCovered[k] = fmt.Sprintf("too large for the sweep (%d SSA instructions)", nInstr)
			continue
		}
		var obls []*Obligation
		problem := ""
		func() {
			defer func() {
				if r := recover(); r != nil {
					problem = fmt.Sprint(r)
					if ee, ok := r.(*EngineError); ok {
						problem = ee.Msg
					}
				}
			}()
			t0 := time.Now()
			fv := NewFuncVC(v, fn, v.sweepContract(fn, arity), *prop)
			fv.sweepMode = true
			fv.VerifyTop()
			obls = fv.obls
			if time.Since(t0) > 20*time.Second {
				problem = "VC generation took more than 20 s"
			}
		}()
		if problem != "" {
			list.NotCovered[k] = "outside the generator's subset: " + truncate(problem, 160)
			continue
		}
		if len(obls) > 400 {
			list.NotCovered[k] = fmt.Sprintf("too many obligations for the sweep (%d)", len(obls))
			continue
		}
		jobs = append(jobs, job{k, obls})
		all = append(all, obls...)
	}
	fmt.Fprintf(os.Stderr, "sweep %s: %d functions, %d obligations generated in %.0fs\n", *prop, len(jobs), len(all), time.Since(start).Seconds())
	DischargeAll(all, workdir, *timeout, runtime.NumCPU(), 0, false)
	for _, j := range jobs {
		var bad []string
		n := 0
		for _, o := range j.obls {
			if o.Cover {
				if o.Result == "unsat" {
					bad = append(bad, "vacuous precondition")
				}
				continue
			}
			n++
			if o.Result != "unsat" {
				bad = append(bad, fmt.Sprintf("%s (%s, %s: %s)", strings.TrimPrefix(o.Name, *prop+"/"), o.Result, o.Pos, truncate(o.Text, 60)))
			}
		}
		nObl += n
		if len(bad) == 0 && n > 0 {
			list.Claimed = append(list.Claimed, j.k)
		} else if n == 0 {
			list.NotCovered[j.k] = "no instruction that can panic"
		} else {
			list.NotCovered[j.k] = fmt.Sprintf("%d of %d obligations not discharged: %s", len(bad), n, truncate(strings.Join(bad, "; "), 400))
		}
		if *only != "" {
			fmt.Printf("%s: %d obligations, undischarged: %v\n", j.k, n, bad)
		}
	}
	fmt.Fprintf(os.Stderr, "sweep %s: %d functions claimed, %d not covered, %d obligations, %.0fs\n", *prop, len(list.Claimed), len(list.NotCovered), nObl, time.Since(start).Seconds())
	if *update && *only == "" {
		os.MkdirAll(filepath.Join(*verif, "sweeps"), 0o755)
		out, _ := json.MarshalIndent(list, "", " ")
		os.WriteFile(filepath.Join(*verif, "sweeps", *prop+".json"), out, 0o644)
	}
	return 0
}
