package main

// Representation coherence of a persisted struct (C02): every field of the struct - the list is taken from
// go/types on every run, so a new field fails the check until it is classified - is exactly one of
//   persisted : read by the marshalling function and written by every reading constructor;
//   derived   : not persisted, and (re)established by every constructor, live and reading alike (directly, in the
//               composite literal, or through a listed helper the constructor calls);
//   per_call  : not persisted, established at the start of every engine call by the listed function, which the
//               listed entry points call before anything else reads the field;
//   transient : deliberately not restored (reason given in the configuration, listed as an assumption).
// This is the contract-side statement of "a session that is marshalled and read back is the session that was
// kept in memory": the two constructors establish the same representation invariant.

import (
	"encoding/json"
	"fmt"
	"go/types"
	"sort"
	"strings"

	"golang.org/x/tools/go/ssa"
)

type codecArgs struct {
	Struct    string              `json:"struct"`
	Marshal   string              `json:"marshal"`
	Readers   []string            `json:"readers"`
	Makers    []string            `json:"makers"`
	Helpers   []string            `json:"helpers"` // functions that may establish fields on behalf of a constructor that calls them
	Persisted []string            `json:"persisted"`
	Derived   map[string]string   `json:"derived"`
	PerCall   map[string][]string `json:"per_call"` // field -> [establishing function, entry points that must call it...]
	Transient map[string]string   `json:"transient"`
}

// fieldWrittenBy: fn stores to field `name` of the struct type (any object, fresh or not), or calls one of the
// helpers that does
func (v *Verifier) fieldWrittenBy(fn *ssa.Function, structT types.Type, name string, helpers []*ssa.Function, seen map[*ssa.Function]bool) bool {
	if seen[fn] {
		return false
	}
	seen[fn] = true
	for _, b := range fn.Blocks {
		for _, in := range b.Instrs {
			switch x := in.(type) {
			case *ssa.Store:
				if fa, ok := x.Addr.(*ssa.FieldAddr); ok {
					t := fa.X.Type().Underlying().(*types.Pointer).Elem()
					if types.Identical(t, structT) && t.Underlying().(*types.Struct).Field(fa.Field).Name() == name {
						return true
					}
				}
			case *ssa.MapUpdate:
				// a map field established empty and filled through a helper counts through the helper
			case ssa.CallInstruction:
				if sc := x.Common().StaticCallee(); sc != nil {
					for _, h := range helpers {
						if sc == h && v.fieldWrittenBy(h, structT, name, helpers, seen) {
							return true
						}
					}
				}
			}
		}
	}
	return false
}

func (v *Verifier) fieldReadBy(fn *ssa.Function, structT types.Type, name string) bool {
	return v.readsField(fn, structT, name)
}

func (v *Verifier) codecCoverage(cfg PropConfig, sc StructuralCheck) []StructResult {
	var a codecArgs
	if err := json.Unmarshal(sc.Args, &a); err != nil {
		engineErr("structural %s: %v", sc.Name, err)
	}
	t, err := v.ResolveType(a.Struct, nil)
	if err != nil {
		engineErr("structural %s: %v", sc.Name, err)
	}
	st, ok := t.Underlying().(*types.Struct)
	if !ok {
		engineErr("structural %s: %s is not a struct", sc.Name, a.Struct)
	}
	find := func(k string) *ssa.Function {
		fn := v.funcsByKey[modulePath+"/"+k]
		if fn == nil {
			engineErr("structural %s: function %s not found in /repo (renamed or removed?)", sc.Name, k)
		}
		return fn
	}
	marshal := find(a.Marshal)
	var readers, makers, helpers []*ssa.Function
	for _, k := range a.Readers {
		readers = append(readers, find(k))
	}
	for _, k := range a.Makers {
		makers = append(makers, find(k))
	}
	for _, k := range a.Helpers {
		helpers = append(helpers, find(k))
	}
	class := map[string]string{}
	for _, f := range a.Persisted {
		class[f] = "persisted"
	}
	for f := range a.Derived {
		class[f] = "derived"
	}
	for f := range a.PerCall {
		class[f] = "per_call"
	}
	for f := range a.Transient {
		class[f] = "transient"
	}
	var out []StructResult
	mk := func(field, what string, okV bool, detail string) {
		out = append(out, StructResult{Name: fmt.Sprintf("%s/structural/codec[%s.%s]", cfg.ID, a.Struct, field), Kind: "codec", Text: what, Detail: detail, OK: okV})
	}
	seenField := map[string]bool{}
	for i := 0; i < st.NumFields(); i++ {
		f := st.Field(i).Name()
		seenField[f] = true
		switch class[f] {
		case "":
			mk(f, fmt.Sprintf("field %s of %s is persisted, re-derived or declared transient", f, a.Struct), false,
				"the field is not classified: it is neither written to / read from the persisted form nor declared derived or transient - a restored object may differ from the live one in it")
		case "persisted":
			var bad []string
			if !v.fieldReadBy(marshal, t, f) {
				bad = append(bad, shortKey(marshal)+" does not read it")
			}
			for _, r := range readers {
				if !v.fieldWrittenBy(r, t, f, helpers, map[*ssa.Function]bool{}) {
					bad = append(bad, shortKey(r)+" does not set it")
				}
			}
			mk(f, fmt.Sprintf("persisted field %s of %s is written by the marshaller and restored by every reader", f, a.Struct), len(bad) == 0, strings.Join(bad, "; "))
		case "derived":
			var bad []string
			for _, r := range append(append([]*ssa.Function(nil), readers...), makers...) {
				if !v.fieldWrittenBy(r, t, f, helpers, map[*ssa.Function]bool{}) {
					bad = append(bad, shortKey(r)+" does not establish it")
				}
			}
			mk(f, fmt.Sprintf("derived field %s of %s (%s) is established by every constructor, live and restoring", f, a.Struct, a.Derived[f]), len(bad) == 0, strings.Join(bad, "; "))
		case "per_call":
			spec := a.PerCall[f]
			var bad []string
			if len(spec) < 2 {
				bad = append(bad, "configuration needs the establishing function and the entry points")
			} else {
				est := find(spec[0])
				if !v.fieldWrittenBy(est, t, f, nil, map[*ssa.Function]bool{}) {
					bad = append(bad, shortKey(est)+" does not establish it")
				}
				for _, ep := range spec[1:] {
					if !v.callsFunction(find(ep), est) {
						bad = append(bad, ep+" does not call "+shortKey(est))
					}
				}
			}
			mk(f, fmt.Sprintf("per-call field %s of %s is established at the start of every engine call", f, a.Struct), len(bad) == 0, strings.Join(bad, "; "))
		case "transient":
			mk(f, fmt.Sprintf("field %s of %s is declared transient (assumption): %s", f, a.Struct, a.Transient[f]), true, "declared")
		}
	}
	var stale []string
	for f := range class {
		if !seenField[f] {
			stale = append(stale, f)
		}
	}
	sort.Strings(stale)
	out = append(out, StructResult{Name: fmt.Sprintf("%s/structural/codec[%s:classification]", cfg.ID, a.Struct), Kind: "codec", Text: "the classification names only existing fields of " + a.Struct,
		Detail: fmt.Sprintf("%d fields; stale entries: %s", st.NumFields(), strings.Join(stale, ", ")), OK: len(stale) == 0})
	return out
}
