package main

import (
	"encoding/json"
	"flag"
	"fmt"
	"go/ast"
	"go/types"
	"regexp"
	"os"
	"path/filepath"
	"runtime"
	"sort"
	"strconv"
	"strings"
	"time"

	"golang.org/x/tools/go/ssa"
)

type PropConfig struct {
	ID          string   `json:"id"`
	Level       string   `json:"level"`
	Packages    []string `json:"packages"`
	Functions   []string `json:"functions"` // "<pkg rel path>::<key>"
	Lemmas      []string `json:"lemmas"`
	Explanation string   `json:"explanation"`
	Assumptions []string `json:"assumptions"`
	Structural  []StructuralCheck `json:"structural"`
	NotCovered  []string `json:"not_covered"`
	Replay      []ReplayAdapter `json:"replay"`
	Sweep       *SweepConfig    `json:"sweep"`
	Bounded     []BoundedCheck  `json:"bounded"`
}

type StructuralCheck struct {
	Kind string          `json:"kind"`
	Name string          `json:"name"`
	Args json.RawMessage `json:"args"`
}

type KnownFinding struct {
	Property   string `json:"property"`
	Obligation string `json:"obligation"` // obligation name prefix (without #n)
	WhatFails  string `json:"what_fails"`
	Status     string `json:"status"` // known | fixed
	Commit     string `json:"commit,omitempty"`
	Witness    string `json:"witness,omitempty"`
}

func main() {
	if len(os.Args) < 2 {
		fmt.Fprintln(os.Stderr, "usage: gocv verify|dump ...")
		os.Exit(2)
	}
	switch os.Args[1] {
	case "verify":
		os.Exit(cmdVerify(os.Args[2:]))
	case "sweep":
		os.Exit(cmdSweep(os.Args[2:]))
	default:
		fmt.Fprintln(os.Stderr, "unknown command")
		os.Exit(2)
	}
}

func cmdVerify(args []string) (code int) {
	fs := flag.NewFlagSet("verify", flag.ExitOnError)
	prop := fs.String("prop", "", "property id")
	tier := fs.String("tier", "quick", "quick|thorough")
	repo := fs.String("repo", "/repo", "repository")
	verif := fs.String("verif", "/verif", "verif dir")
	overlayF := fs.String("overlay", "", "json file: {path: replacement-file}")
	only := fs.String("only", "", "only functions whose key contains this")
	dump := fs.Bool("dump", false, "keep SMT queries")
	noEvidence := fs.Bool("no-evidence", false, "do not write evidence (self-test runs)")
	fs.Parse(args)
	start := time.Now()
	seed := 0
	if s := os.Getenv("VERIF_SEED"); s != "" {
		seed, _ = strconv.Atoi(s)
	}
	defer func() {
		if r := recover(); r != nil {
			if ee, ok := r.(*EngineError); ok {
				fmt.Fprintf(os.Stderr, "ENGINE ERROR: %s\n", ee.Msg)
				code = 2
				return
			}
			panic(r)
		}
	}()
	cfgData, err := os.ReadFile(filepath.Join(*verif, "props", *prop+".json"))
	if err != nil {
		fmt.Fprintln(os.Stderr, "ENGINE ERROR:", err)
		return 2
	}
	var cfg PropConfig
	if err := json.Unmarshal(cfgData, &cfg); err != nil {
		fmt.Fprintln(os.Stderr, "ENGINE ERROR: bad property config:", err)
		return 2
	}
	overlay := map[string][]byte{}
	if *overlayF != "" {
		var m map[string]string
		d, err := os.ReadFile(*overlayF)
		if err != nil {
			fmt.Fprintln(os.Stderr, "ENGINE ERROR:", err)
			return 2
		}
		json.Unmarshal(d, &m)
		for k, f := range m {
			b, err := os.ReadFile(f)
			if err != nil {
				fmt.Fprintln(os.Stderr, "ENGINE ERROR:", err)
				return 2
			}
			overlay[k] = b
		}
	}
	tLoad := time.Now()
	v, err := Load(*repo, cfg.Packages, overlay, filepath.Join(*verif, "contracts", "ext"))
	if err != nil {
		fmt.Fprintln(os.Stderr, "ENGINE ERROR: load:", err)
		return 2
	}
	loadS := time.Since(tLoad).Seconds()
	for _, w := range v.warnings {
		fmt.Fprintln(os.Stderr, "warning:", w)
	}
	if *tier == "thorough" {
		// thorough: branch-level vacuity covers as well (reported as notes and in the evidence; see tools/vacuity_selftest.sh)
		coverReturns = true
	}
	// one scratch directory per process: two runs of the same property at once (a check and a seeded run, say) must not
	// delete each other's query files (that showed as solver "error" results); --dump keeps the stable name
	workdir := filepath.Join(*verif, "work", "smt", fmt.Sprintf("%s-%d", *prop, os.Getpid()))
	if *dump {
		workdir = filepath.Join(*verif, "work", "smt", *prop)
	}
	os.RemoveAll(workdir)
	os.MkdirAll(workdir, 0o755)
	if !*dump {
		defer os.RemoveAll(workdir)
	}

	var allObls []*Obligation
	var fvs []*FuncVC
	var fnames []string
	tGen := time.Now()
	for _, f := range cfg.Functions {
		if *only != "" && !strings.Contains(f, *only) {
			continue
		}
		key := modulePath + "/" + f
		if strings.HasPrefix(f, "::") {
			key = modulePath + f
		}
		fn := v.funcsByKey[key]
		if fn == nil {
			// the function the contract is written on is gone (removed, renamed, signature moved to another receiver): the
			// obligations generated from it on the unchanged tree can no longer be generated, so what they established is
			// undecided - one failed obligation, the rest of the property is still checked
			fmt.Fprintf(os.Stderr, "warning: function under contract %s not found in /repo (renamed or removed?)\n", f)
			mf := NewFuncVC(v, nil, nil, cfg.ID)
			mf.obls = append(mf.obls, &Obligation{Name: fmt.Sprintf("%s/%s/contract-target", cfg.ID, strings.ReplaceAll(f, "::", ".")), Kind: "contract:target", Func: f, Pos: "",
				Text: "the function under contract exists, so its obligations can be generated", ctx: mf.ctx, Static: true, Solver: "generator", Result: "failed",
				Model: "function " + f + " is under contract for this property but is not in /repo any more (renamed or removed); the clauses proved about it on the unchanged tree are undecided"})
			allObls = append(allObls, mf.obls...)
			fvs = append(fvs, mf)
			fnames = append(fnames, f+" (missing)")
			continue
		}
		con := v.contracts[fn]
		if con == nil {
			fmt.Fprintf(os.Stderr, "ENGINE ERROR: no contract for %s\n", f)
			return 2
		}
		fv := verifyWithAliases(v, fn, con, cfg.ID, workdir, *tier)
		if len(fv.obls) == 0 {
			fmt.Fprintf(os.Stderr, "ENGINE ERROR: function %s generated zero obligations (vacuity guard)\n", f)
			return 2
		}
		allObls = append(allObls, fv.obls...)
		fvs = append(fvs, fv)
		fnames = append(fnames, f)
	}
	// no-panic sweep: the functions of the committed claimed list, each under the thin contract `nopanic`
	nSweep := 0
	var sweepNotCovered int
	if cfg.Sweep != nil {
		var list SweepList
		if d, err := os.ReadFile(filepath.Join(*verif, "sweeps", cfg.ID+".json")); err == nil {
			json.Unmarshal(d, &list)
		}
		sweepNotCovered = len(list.NotCovered)
		v.sweepUses = cfg.Sweep.Uses
		arity := v.arityFacts(*cfg.Sweep)
		for _, k := range list.Claimed {
			if *only != "" && !strings.Contains(k, *only) {
				continue
			}
			fn := v.funcsByKey[modulePath+"/"+k]
			if fn == nil {
				// a claimed function that no longer exists: nothing to prove about it (renames are picked up by `sweep --update`)
				fmt.Fprintf(os.Stderr, "warning: swept function %s no longer exists\n", k)
				continue
			}
			fv := NewFuncVC(v, fn, v.sweepContract(fn, arity), cfg.ID)
			fv.sweepMode = true
			func() {
				defer func() {
					if r := recover(); r != nil {
						// the function left the generator's subset: one failed obligation
						msg := fmt.Sprint(r)
						if ee, ok := r.(*EngineError); ok {
							msg = ee.Msg
						}
						fv = NewFuncVC(v, fn, v.sweepContract(fn, arity), cfg.ID)
						fv.obls = append(fv.obls, &Obligation{Name: fmt.Sprintf("%s/%s/sweep", cfg.ID, fv.funcName()), Kind: "safe:subset", Func: fv.funcName(), Pos: v.prog.Fset.Position(fn.Pos()).String(),
							Text: "the function is within the generator's subset", ctx: fv.ctx, Static: true, Solver: "generator", Result: "failed", Model: msg})
					}
				}()
				fv.VerifyTop()
			}()
			allObls = append(allObls, fv.obls...)
			fvs = append(fvs, fv)
			nSweep++
		}
		fnames = append(fnames, fmt.Sprintf("%d functions of the no-panic sweep (list: /verif/sweeps/%s.json; %d functions of the scope not covered, reasons there)", nSweep, cfg.ID, sweepNotCovered))
	}
	for _, ln := range cfg.Lemmas {
		if *only != "" && !strings.Contains(ln, *only) {
			continue
		}
		l := v.lemmas[modulePath+"/"+ln]
		if l == nil {
			fmt.Fprintf(os.Stderr, "ENGINE ERROR: lemma %s not found\n", ln)
			return 2
		}
		fv := VerifyLemma(v, l, cfg.ID)
		if len(fv.obls) == 0 {
			fmt.Fprintf(os.Stderr, "ENGINE ERROR: lemma %s generated zero obligations\n", ln)
			return 2
		}
		allObls = append(allObls, fv.obls...)
		fvs = append(fvs, fv)
		fnames = append(fnames, "lemma "+ln)
	}
	genS := time.Since(tGen).Seconds()
	// structural (frame / call-graph) obligations
	sres := v.runStructural(cfg)
	// bounded stand-ins (real code, exhaustive up to the stated bound; never counted as proved)
	var bres []BoundedResult
	if *only == "" {
		for _, bc := range cfg.Bounded {
			bres = append(bres, runBounded(*verif, *repo, overlay, &cfg, bc, *tier == "thorough")...)
		}
	}

	timeout := 10
	if *tier == "thorough" {
		timeout = 60
	}
	tSolve := time.Now()
	DischargeAll(allObls, workdir, timeout, runtime.NumCPU(), seed, *tier == "thorough")
	// loops renumbered by an edit: functions with `loop n` blocks and a failing obligation are retried with the other
	// order-preserving assignments of contract loops to code loops
	for i, fv := range fvs {
		if fv.fn != nil && fv.sweepMode && cfg.Sweep != nil {
			// a function of the no-panic sweep with an undischarged obligation: if a loop was moved into a new helper by an edit
			// the helper is an opaque call now; retry with such helpers inlined (their loops cut like the function's own)
			failing := false
			for _, o := range fv.obls {
				if !o.Cover && o.Result != "unsat" {
					failing = true
				}
			}
			if failing {
				var fv2 *FuncVC
				func() {
					defer func() {
						if r := recover(); r != nil {
							fv2 = nil
						}
					}()
					fv2 = NewFuncVC(v, fv.fn, fv.con, cfg.ID)
					fv2.sweepMode = true
					fv2.inlineLoopHelpers = true
					fv2.VerifyTop()
				}()
				if fv2 != nil && len(fv2.obls) > 0 {
					DischargeAll(fv2.obls, workdir, timeout, runtime.NumCPU(), seed, false)
					ok := true
					for _, o := range fv2.obls {
						if o.Cover {
							if o.Result == "unsat" {
								ok = false
							}
						} else if o.Result != "unsat" {
							ok = false
						}
					}
					if os.Getenv("GOCV_DEBUG_RETRY") != "" {
						for _, o := range fv2.obls {
							if !o.Cover && o.Result != "unsat" {
								fmt.Fprintf(os.Stderr, "[sweep-retry] %s %s %s\n", o.Name, o.Result, o.Pos)
							}
						}
					}
					if ok {
						fmt.Fprintf(os.Stderr, "note: %s: discharges with its loop helpers inlined (a loop moved into a helper by an edit)\n", shortFuncName(fv.fn))
						old := map[*Obligation]bool{}
						for _, o := range fv.obls {
							old[o] = true
						}
						var kept []*Obligation
						for _, o := range allObls {
							if !old[o] {
								kept = append(kept, o)
							}
						}
						allObls = append(kept, fv2.obls...)
						fvs[i] = fv2
					}
				}
			}
			continue
		}
		if fv.fn == nil || fv.con == nil || len(fv.con.Loops) == 0 || fv.sweepMode {
			continue
		}
		failing := false
		for _, o := range fv.obls {
			if !o.Cover && o.Result != "unsat" {
				failing = true
			}
		}
		if !failing {
			continue
		}
		if fv2 := retryLoopBinding(v, fv.fn, fv.con, cfg.ID, workdir, *tier, fv); fv2 != nil {
			old := map[*Obligation]bool{}
			for _, o := range fv.obls {
				old[o] = true
			}
			var kept []*Obligation
			for _, o := range allObls {
				if !old[o] {
					kept = append(kept, o)
				}
			}
			allObls = append(kept, fv2.obls...)
			fvs[i] = fv2
		}
	}
	solveS := time.Since(tSolve).Seconds()

	// known findings
	var known []KnownFinding
	if d, err := os.ReadFile(filepath.Join(*verif, "known_findings.json")); err == nil {
		json.Unmarshal(d, &known)
	}
	isKnown := func(name string) *KnownFinding {
		base := name
		if i := strings.LastIndex(base, "#"); i >= 0 && !strings.Contains(base[i:], "]") {
			base = base[:i]
		}
		for i := range known {
			if known[i].Property == cfg.ID && known[i].Status == "known" && known[i].Obligation == base {
				return &known[i]
			}
		}
		return nil
	}

	replayDir := filepath.Join(*verif, "work", "replay", *prop)
	os.RemoveAll(replayDir)
	os.MkdirAll(replayDir, 0o755)
	nDis, nViol, nCover := 0, 0, 0
	byKind := map[string]int{}
	bySolver := map[string]int{}
	solverTime := 0.0
	var samples []map[string]interface{}
	var violations []string
	var knownHit []string
	engineProblem := false
	nKnownBounded := 0
	var unreachable []string
	for _, o := range allObls {
		solverTime += o.TimeS
		if o.Cover {
			nCover++
			if o.Result == "unsat" && strings.HasPrefix(o.Label, "return@") {
				fmt.Fprintf(os.Stderr, "note: unreachable return: %s\n", o.Name)
				unreachable = append(unreachable, o.Name)
				continue
			}
			if o.Result == "unsat" {
				fmt.Fprintf(os.Stderr, "ENGINE ERROR: vacuity: %s is unreachable under the assumed contracts (%s)\n", o.Name, o.Pos)
				engineProblem = true
			}
			continue
		}
		byKind[o.Kind]++
		if o.Result == "unsat" {
			nDis++
			bySolver[o.Solver]++
			if len(samples) < 6 && (o.Kind == "post" || o.Kind == "inv.pres") {
				samples = append(samples, map[string]interface{}{"obligation": o.Name, "clause": o.Text, "at": o.Pos, "answer": o.Result, "solver": o.Solver, "time_s": round3(o.TimeS), "smt_bytes": len(o.Query)})
			}
			continue
		}
		if kf := isKnown(o.Name); kf != nil {
			knownHit = append(knownHit, fmt.Sprintf("KNOWN-FINDING: property=%s %s [%s]", cfg.ID, kf.WhatFails, o.Name))
			continue
		}
		nViol++
		rp := filepath.Join(replayDir, sanitize(strings.ReplaceAll(o.Name, "/", "_"))+".json")
		rec := map[string]interface{}{"property": cfg.ID, "obligation": o.Name, "kind": o.Kind, "clause": o.Text, "at": o.Pos, "solver_answer": o.Result, "solver": o.Solver}
		suffix := " no-failing-input-found"
		if o.Result == "sat" {
			rec["model"] = extractModel(o.Model)
			rec["inputs"] = decodeProbes(o)
			rec["candidate_model_without_quantified_axioms"] = o.Candidate
			if ok, detail := tryReplay(*verif, *repo, overlay, &cfg, o, rec); ok {
				suffix = ""
				rec["replayed"] = detail
			} else if detail != "" {
				rec["replay_attempt"] = detail
			}
		} else {
			rec["solver_output"] = truncate(o.Model, 2000)
			// no model: the replay adapter (a driver over the clause's input region) may still find a failing input
			if ok, detail := tryReplay(*verif, *repo, overlay, &cfg, o, rec); ok {
				suffix = ""
				rec["replayed"] = detail
			} else if detail != "" && detail != "no replay adapter for this obligation" {
				rec["replay_attempt"] = detail
			}
		}
		d, _ := json.MarshalIndent(rec, "", " ")
		os.WriteFile(rp, d, 0o644)
		if *dump {
			os.WriteFile(rp+".smt2", []byte(o.Query), 0o644)
		}
		violations = append(violations, fmt.Sprintf("VIOLATION property=%s replay=%s obligation=%s (%s: %s)%s", cfg.ID, rp, o.Name, o.Pos, o.Text, suffix))
	}
	for _, s := range sres {
		byKind[s.Kind]++
		if os.Getenv("GOCV_STRUCT_DUMP") != "" {
			fmt.Fprintf(os.Stderr, "  structural %v %s: %s [%s]\n", s.OK, s.Name, s.Text, truncate(s.Detail, 300))
		}
		if s.OK {
			nDis++
			bySolver["structural"]++
			if len(samples) < 8 {
				samples = append(samples, map[string]interface{}{"obligation": s.Name, "clause": s.Text, "answer": "holds", "solver": "structural analysis", "detail": truncate(s.Detail, 300)})
			}
			continue
		}
		if kf := isKnown(s.Name); kf != nil {
			knownHit = append(knownHit, fmt.Sprintf("KNOWN-FINDING: property=%s %s [%s]", cfg.ID, kf.WhatFails, s.Name))
			continue
		}
		nViol++
		rp := filepath.Join(replayDir, sanitize(strings.ReplaceAll(s.Name, "/", "_"))+".json")
		rec := map[string]interface{}{"property": cfg.ID, "obligation": s.Name, "kind": s.Kind, "clause": s.Text, "detail": s.Detail}
		suffix := " no-failing-input-found"
		if ok, detail := tryReplay(*verif, *repo, overlay, &cfg, &Obligation{Name: s.Name, Text: s.Text}, rec); ok {
			suffix = ""
			rec["replayed"] = detail
		} else if detail != "" {
			rec["replay_attempt"] = detail
		}
		d, _ := json.MarshalIndent(rec, "", " ")
		os.WriteFile(rp, d, 0o644)
		violations = append(violations, fmt.Sprintf("VIOLATION property=%s replay=%s obligation=%s (%s)%s", cfg.ID, rp, s.Name, truncate(s.Detail, 200), suffix))
	}
	var boundedEv []map[string]interface{}
	for _, b := range bres {
		rec := map[string]interface{}{"obligation": b.Name, "clause": b.Text, "bound": b.Bound, "cases": b.Cases, "holds_within_bound": b.OK, "wall_s": round3(b.WallS), "labelled": "bounded (not a proof; not counted in obligations/discharged)"}
		if !b.OK {
			rec["failing_class"] = b.Class
			rec["failing_inputs"] = b.Inputs
			rec["detail"] = b.Detail
			if b.RanError != "" {
				rec["driver_output"] = b.RanError
			}
		}
		boundedEv = append(boundedEv, rec)
		if b.OK {
			continue
		}
		if kf := isKnown(b.Name); kf != nil {
			knownHit = append(knownHit, fmt.Sprintf("KNOWN-FINDING: property=%s %s [%s]", cfg.ID, kf.WhatFails, b.Name))
			nKnownBounded++
			continue
		}
		nViol++
		rp := filepath.Join(replayDir, sanitize(strings.ReplaceAll(b.Name, "/", "_"))+".json")
		d, _ := json.MarshalIndent(rec, "", " ")
		os.WriteFile(rp, d, 0o644)
		suffix := ""
		if len(b.Inputs) == 0 {
			suffix = " no-failing-input-found"
		}
		violations = append(violations, fmt.Sprintf("VIOLATION property=%s replay=%s obligation=%s (bounded check on the real code, %s: %s; failing inputs e.g. %s)%s", cfg.ID, rp, b.Name, b.Bound, truncate(b.Detail, 200), truncate(strings.Join(b.Inputs, " "), 300), suffix))
	}
	total := len(allObls) - nCover + len(sres)
	if *dump {
		sorted := append([]*Obligation(nil), allObls...)
		sort.Slice(sorted, func(i, j int) bool { return sorted[i].TimeS > sorted[j].TimeS })
		for i, o := range sorted {
			if i >= 15 {
				break
			}
			fmt.Fprintf(os.Stderr, "  %6.2fs %-8s %-7s %s\n", o.TimeS, o.Result, o.Solver, o.Name)
		}
	}
	if engineProblem {
		return 2
	}
	for _, k := range knownHit {
		fmt.Println(k)
	}
	for _, vl := range violations {
		fmt.Println(vl)
	}
	// evidence
	if !*noEvidence {
		inl, hav, asm, dev := map[string]bool{}, map[string]bool{}, map[string]bool{}, map[string]bool{}
		for _, fv := range fvs {
			for k := range fv.inlined {
				inl[strings.TrimPrefix(k, modulePath+"/")] = true
			}
			for k := range fv.havoced {
				hav[strings.TrimPrefix(k, modulePath+"/")] = true
			}
			for k := range fv.assumed {
				asm[strings.TrimPrefix(k, modulePath+"/")] = true
			}
			for k := range fv.devirt {
				dev[k] = true
			}
		}
		level := cfg.Level
		assumptions := append([]string{}, cfg.Assumptions...)
		for _, k := range sortedKeys(asm) {
			assumptions = append(assumptions, "assumed contract (not verified): "+k)
		}
		ev := map[string]interface{}{
			"property_id": cfg.ID,
			"tier":        *tier,
			"seed":        seed,
			"level":       level,
			"wall_s":      round3(time.Since(start).Seconds()),
			"violations":  nViol,
			"assumptions": assumptions,
			"coverage": map[string]interface{}{
				"obligations":              total,
				"discharged":               nDis + len(knownHit) - nKnownBounded,
				"bounded":                  boundedEv,
				"discharged_excluding_known_findings": nDis,
				"known_findings_reported":  len(knownHit),
				"known_findings_from_bounded_checks": nKnownBounded,
				"cover_checks_sat":         nCover,
				"blocks_proved_unreachable": unreachable,
				"checker_cmd":              fmt.Sprintf("/verif/bin/gocv verify --prop %s --tier %s", cfg.ID, *tier),
				"trusted_base":             []string{"golang.org/x/tools go/packages+go/types+go/ssa v0.29.0 (source -> SSA)", "gocv VC generator (/verif/gocv)", "z3 5.1.0 (z3-new), z3 4.8.12, cvc5 1.0.3", "ext contracts in /verif/contracts/ext (assumed)"},
				"explanation":              cfg.Explanation,
				"functions_under_contract": fnames,
				"by_kind":                  byKind,
				"by_solver":                bySolver,
				"solver_time_s":            round3(solverTime),
				"load_s":                   round3(loadS),
				"vcgen_s":                  round3(genS),
				"solve_wall_s":             round3(solveS),
				"inlined_callees":          sortedKeys(inl),
				"havoced_calls":            sortedKeys(hav),
				"devirtualised":            sortedKeys(dev),
				"not_covered":              cfg.NotCovered,
				"samples":                  samples,
				"integers":                 "mathematical (A1); strings uninterpreted; see DESIGN §2.3",
			},
		}
		os.MkdirAll(filepath.Join(*verif, "evidence"), 0o755)
		d, _ := json.MarshalIndent(ev, "", " ")
		os.WriteFile(filepath.Join(*verif, "evidence", cfg.ID+".json"), d, 0o644)
	}
	fmt.Fprintf(os.Stderr, "%s %s: %d obligations, %d discharged, %d known, %d violations, %d cover; load %.1fs gen %.1fs solve %.1fs\n", cfg.ID, *tier, total, nDis, len(knownHit), nViol, nCover, loadS, genS, solveS)
	if nViol > 0 {
		return 1
	}
	return 0
}

func round3(f float64) float64 { return float64(int(f*1000)) / 1000 }

func truncate(s string, n int) string {
	if len(s) > n {
		return s[:n] + "..."
	}
	return s
}

func extractModel(out string) map[string]string {
	// parse (define-fun name () Sort value) for scalar constants
	m := map[string]string{}
	lines := strings.Split(out, "\n")
	for i := 0; i < len(lines); i++ {
		l := strings.TrimSpace(lines[i])
		if !strings.HasPrefix(l, "(define-fun ") {
			continue
		}
		rest := l[len("(define-fun "):]
		sp := strings.Index(rest, " ")
		if sp < 0 {
			continue
		}
		name := rest[:sp]
		rest = strings.TrimSpace(rest[sp:])
		if !strings.HasPrefix(rest, "()") {
			continue
		}
		rest = strings.TrimSpace(rest[2:])
		// sort then value maybe on next line
		var val string
		if strings.HasPrefix(rest, "Int") || strings.HasPrefix(rest, "Bool") || strings.HasPrefix(rest, "Real") {
			f := strings.SplitN(rest, " ", 2)
			if len(f) == 2 && strings.TrimSpace(f[1]) != "" {
				val = strings.TrimSuffix(strings.TrimSpace(f[1]), ")")
			} else if i+1 < len(lines) {
				val = strings.TrimSuffix(strings.TrimSpace(lines[i+1]), ")")
			}
			if strings.Contains(name, "!") && !strings.HasPrefix(name, "lit!") {
				// keep only inputs-ish names short
			}
			m[name] = val
		}
	}
	if len(m) > 400 {
		// keep it readable
		keys := make([]string, 0, len(m))
		for k := range m {
			keys = append(keys, k)
		}
		sort.Strings(keys)
		n := map[string]string{}
		for _, k := range keys[:400] {
			n[k] = m[k]
		}
		return n
	}
	return m
}

// VerifyTop generates the obligations of one function against its contract.
func (fv *FuncVC) VerifyTop() {
	fn := fv.fn
	defer func() {
		if r := recover(); r != nil {
			if ee, ok := r.(*EngineError); ok {
				panic(&EngineError{shortFuncName(fn) + ": " + ee.Msg})
			}
			panic(r)
		}
	}()
	fv.ctx.Const("cnt0", SInt)
	fv.ctx.Assume("(> cnt0 0)")
	st := &State{heap: map[string]string{}, cnt: "cnt0", ghost: map[string]Val{}}
	fr := fv.newFrame(fn, 0)
	fr.top = true
	fr.con = fv.con
	fv.topFrame = fr
	var args []Val
	for _, p := range fn.Params {
		v := fv.m.FreshVal("in."+p.Name(), p.Type())
		fv.typeFacts(v, st, "true")
		args = append(args, v)
	}
	var free []Val
	for _, f := range fn.FreeVars {
		v := fv.m.FreshVal("free."+f.Name(), f.Type())
		fv.typeFacts(v, st, "true")
		// a captured variable is captured by reference: the free variable is the address of the variable's cell, which the
		// enclosing function allocated before it made the closure - never nil
		if _, isPtr := f.Type().Underlying().(*types.Pointer); isPtr && len(v.C) == 1 {
			fv.ctx.Assume(Not(Eq(v.C[0], "0")))
		}
		free = append(free, v)
	}
	for i, p := range fn.Params {
		fr.vals[p] = args[i]
	}
	for i, f := range fn.FreeVars {
		fr.vals[f] = free[i]
	}
	fr.entrySt = st.Clone()
	// interface contracts this function must satisfy (behavioural subtyping)
	for _, impl := range fv.con.Implements {
		ic := fv.v.ifaceCon[impl]
		if ic == nil {
			ic = fv.v.ifaceCon[modulePath+"/"+impl]
		}
		if ic == nil {
			engineErr("implements %s: no such interface contract", impl)
		}
		if fr.extraNames == nil {
			fr.extraNames = map[string]Val{}
		}
		// bind the interface method's parameter names positionally
		if sig := fv.ifaceMethodSig(impl); sig != nil {
			off := 0
			if fn.Signature.Recv() != nil {
				off = 1
				rv := args[0]
				recvIface := Val{T: types.NewInterfaceType(nil, nil), C: []string{fv.typeID(fn.Params[0].Type()), fv.box(st, rv)}}
				fr.extraNames["recv"] = recvIface
				fr.extraNames["self"] = recvIface
			}
			for i := 0; i < sig.Params().Len() && i+off < len(args); i++ {
				nm := sig.Params().At(i).Name()
				if nm != "" && nm != "_" {
					if _, clash := fr.extraNames[nm]; !clash {
						fr.extraNames[nm] = args[i+off]
					}
				}
				fr.extraNames[fmt.Sprintf("arg%d", i)] = args[i+off]
			}
		}
		fr.entrySt = st.Clone()
		envI := fv.frameEnv(fr, fn.Blocks[0], st)
		envI.con = ic
		for _, r := range ic.Requires {
			fv.ctx.Assume(fv.evalClause(envI, r))
		}
		fr.extraEnsures = append(fr.extraEnsures, ic.Ensures...)
	}
	fr.entrySt = st.Clone()
	env := fv.frameEnv(fr, fn.Blocks[0], st)
	{
		var pn []string
		for _, p := range fn.Params {
			pn = append(pn, p.Name())
		}
		fv.autoProbes(pn, args, st)
		for _, pr := range fv.con.Probes {
			fv.addProbe(pr.Name, fv.evalSpec(env, pr.Expr))
		}
	}
	for _, r := range fv.con.Requires {
		fv.ctx.Assume(fv.evalClause(env, r))
	}
	fv.uses = fv.con.Uses
	fv.revealed = fv.con.Reveal
	fv.stack = append(fv.stack, fn)
	fv.cover("pre", "true", "precondition satisfiable", fv.pos(fn.Pos()))
	checkReads := fv.con != nil && fv.con.Pure && len(fv.con.Reads) > 0 && !fv.con.Trusted
	if checkReads {
		fv.m.readLog = map[string]bool{}
	}
	fv.run(fr, args, free, st, "true")
	if checkReads {
		fv.readsObligation(fv.m.readLog)
		fv.m.readLog = nil
	}
	for _, o := range fv.obls {
		o.Probes = fv.probes
	}
	fv.frameObligation()
	if len(fv.retReach) > 0 {
		fv.cover("some_return", Or(fv.retReach...), "some return point reachable under the precondition and assumed contracts", fv.pos(fn.Pos()))
	}
	fv.finalize()
}

// readsObligation: the heap keys read while the body of a `pure` function with a `reads` clause was executed
// symbolically (its own loads, the inlined callees', and the clauses evaluated on the way) lie within the declared
// read set. Callers rely on the clause: an application of the function keeps its value across writes outside it.
// What abstracted callees (havocs, contracts without reads) read is not seen - listed with the havoced calls.
func (fv *FuncVC) readsObligation(log map[string]bool) {
	allowed := map[string]bool{}
	for _, r := range fv.con.Reads {
		for _, hk := range fv.readKeys(r, pkgOf(fv.fn)) {
			allowed[hk.Key] = true
		}
	}
	var bad []string
	for k := range log {
		if !isModuleKey(k) || allowed[k] {
			continue
		}
		// local cells and per-call temporaries are not caller-visible state
		if strings.HasPrefix(k, "C$") {
			continue
		}
		bad = append(bad, k)
	}
	sort.Strings(bad)
	o := &Obligation{Name: fmt.Sprintf("%s/%s/reads", fv.prop, fv.funcName()), Kind: "frame", Func: fv.funcName(), Pos: fv.pos(fv.fn.Pos()),
		Text: "reads clause: the heap the body reads is within the declaration", ctx: fv.ctx, Static: true}
	if len(bad) == 0 {
		o.Result = "unsat"
		o.Solver = "read-set recording"
	} else {
		o.Result = "failed"
		o.Solver = "read-set recording"
		o.Model = "reads outside the declared read set: " + strings.Join(bad, ", ")
	}
	fv.obls = append(fv.obls, o)
}

// frameObligation: a function with a `pure` contract or an explicit `assigns` clause must not write
// module state outside the declaration (type-level check by the effect analysis).
func (fv *FuncVC) frameObligation() {
	con := fv.con
	if con == nil {
		return
	}
	if !(con.Pure || con.HasAssigns) {
		if len(con.Implements) > 0 {
			body, all := fv.v.BodyEffects(fv, fv.fn)
			fv.implementsFrame(body, all)
		}
		return
	}
	if con.FrameTrusted {
		fv.havoced[funcKey(fv.fn)+": its assigns clause is assumed, not checked (`frame_trusted`)"] = true
		return
	}
	body, all := fv.v.BodyEffects(fv, fv.fn)
	allowed := map[string]bool{}
	allowAll := false
	if con.HasAssigns {
		for _, it := range fv.expandAssigns(con.Assigns, pkgOf(fv.fn)) {
			switch {
			case it.Computed:
				allowAll = true
			case it.All:
				allowAll = true
			case it.TypeT != "":
				for _, hk := range fv.readKeys(it.keySpec(), pkgOf(fv.fn)) {
					allowed[hk.Key] = true
				}
			default:
				for _, k := range fv.v.assignsItemKeys(fv, fv.fn, it) {
					allowed[k] = true
				}
			}
		}
	}
	var bad []string
	if all && !allowAll {
		bad = append(bad, "* (unknown callee)")
	}
	if !allowAll {
		for _, k := range body {
			if isModuleKey(k) && !allowed[k] {
				bad = append(bad, k)
			}
		}
	}
	what := "assigns clause"
	if con.Pure {
		what = "pure (no writes to module state)"
	}
	o := &Obligation{Name: fmt.Sprintf("%s/%s/frame", fv.prop, fv.funcName()), Kind: "frame", Func: fv.funcName(), Pos: fv.pos(fv.fn.Pos()),
		Text: what + ": computed write set of the body is within the declaration", ctx: fv.ctx, Static: true}
	if len(bad) == 0 {
		o.Result = "unsat"
		o.Solver = "effect-analysis"
	} else {
		o.Result = "failed"
		o.Solver = "effect-analysis"
		o.Model = "writes outside the declared frame: " + strings.Join(bad, ", ")
	}
	fv.obls = append(fv.obls, o)
	fv.implementsFrame(body, all)
}

// implementsFrame: a function that implements an interface method contract with an assigns clause must
// keep its computed write set within that clause (call sites of the interface method havoc only that).
func (fv *FuncVC) implementsFrame(body []string, all bool) {
	for _, impl := range fv.con.Implements {
		ic := fv.v.ifaceCon[impl]
		if ic == nil {
			ic = fv.v.ifaceCon[modulePath+"/"+impl]
		}
		if ic == nil || !ic.HasAssigns {
			continue
		}
		var ipkg *types.Package
		if p, ok := fv.v.allPkgs[ic.Pkg]; ok {
			ipkg = p.Types
		}
		allowed := map[string]bool{}
		allowAll := false
		for _, it := range fv.expandAssigns(ic.Assigns, ipkg) {
			switch {
			case it.Computed, it.All:
				allowAll = true
			case it.TypeT != "":
				for _, hk := range fv.readKeys(it.keySpec(), ipkg) {
					allowed[hk.Key] = true
				}
			case strings.HasPrefix(it.Text, "ghost."):
				for _, hk := range fv.readKeys(it.Text, ipkg) {
					allowed[hk.Key] = true
				}
			default:
				engineErr("interface contract %s: assigns item %q must be type-level (T::field, elems[T], map[K]V, ghost.g)", impl, it.Text)
			}
		}
		var bad []string
		if all && !allowAll {
			bad = append(bad, "* (unknown callee)")
		}
		if !allowAll {
			for _, k := range body {
				if isModuleKey(k) && !allowed[k] {
					bad = append(bad, k)
				}
			}
		}
		o := &Obligation{Name: fmt.Sprintf("%s/%s/frame[implements %s]", fv.prop, fv.funcName(), impl), Kind: "frame", Func: fv.funcName(), Pos: fv.pos(fv.fn.Pos()),
			Text: "computed write set of the body is within the assigns clause of the interface contract " + impl, ctx: fv.ctx, Static: true, Solver: "effect-analysis"}
		if len(bad) == 0 {
			o.Result = "unsat"
		} else {
			o.Result = "failed"
			o.Model = "writes outside the interface contract's frame: " + strings.Join(bad, ", ")
		}
		fv.obls = append(fv.obls, o)
	}
}

// finalize adds facts that must be visible to every query: implements-facts for all registered
// dynamic types, user axioms over the spec functions in use.
func (fv *FuncVC) finalize() {
	// axioms: include those whose spec functions are all declared
	for _, ax := range fv.v.axioms {
		used := false
		for _, u := range fv.uses {
			if u == ax.Name {
				used = true
			}
		}
		if !used {
			continue
		}
		var pkg = fv.v.allPkgs[ax.Pkg]
		if pkg == nil && ax.Pkg != "" {
			continue
		}
		env := &SpecEnv{fv: fv, names: map[string]Val{}, cur: fv.topFrame.entrySt, old: fv.topFrame.entrySt}
		if pkg != nil {
			env.pkg = pkg.Types
		}
		t := fv.evalSpec(env, ax.Expr).One()
		fv.ctx.axioms = append(fv.ctx.axioms, t)
		fv.assumed["axiom "+ax.Name] = true
		// the axiom holds in every state: instantiate it for each heap version a spec function was applied to
		// (evaluating it may record further versions; the list is walked until it stops growing)
		seenAx := map[string]bool{t: true}
		for i := 0; i < len(fv.axiomStateOrder); i++ {
			stx := fv.axiomStates[fv.axiomStateOrder[i]]
			envx := &SpecEnv{fv: fv, names: map[string]Val{}, cur: stx, old: stx}
			if pkg != nil {
				envx.pkg = pkg.Types
			}
			tx := fv.evalSpec(envx, ax.Expr).One()
			if !seenAx[tx] {
				seenAx[tx] = true
				fv.ctx.axioms = append(fv.ctx.axioms, tx)
			}
		}
	}
	// frame of spec functions over the initialisation of new objects: a spec function whose footprint is one field
	// has, on arguments that exist before an object is allocated, the same value in the heap in which that object's
	// field has been initialised (what it reads from older objects are links to older objects: the heap before the
	// allocation is closed under reachability, and the function follows only that one field)
	for i := 0; i < len(fv.pureTupleOrder); i++ {
		pt := fv.pureTuples[fv.pureTupleOrder[i]]
		fam := ""
		oneFamily := true
		for _, k := range pt.keys {
			f := k.Key
			if j := strings.LastIndex(f, "$"); j >= 0 {
				if d := strings.Index(f[j:], "."); d >= 0 {
					f = f[:j+d]
				}
			}
			if fam == "" {
				fam = f
			} else if fam != f {
				oneFamily = false
			}
		}
		if !oneFamily {
			continue
		}
		idx := ""
		prevs := make([]string, len(pt.heapTerms))
		okAll := true
		for j, t := range pt.heapTerms {
			as, ok := fv.m.allocStores[t]
			if !ok || (idx != "" && as.idx != idx) {
				okAll = false
				break
			}
			idx = as.idx
			prevs[j] = as.prev
		}
		if !okAll || idx == "" {
			continue
		}
		nargs := len(pt.sorts) - len(pt.heapTerms)
		var decls, vars, guards []string
		for j := 0; j < nargs; j++ {
			vn := fmt.Sprintf("fa!q%d_%d", i, j)
			decls = append(decls, fmt.Sprintf("(%s %s)", vn, pt.sorts[j]))
			vars = append(vars, vn)
			if j < len(pt.argKinds) {
				switch pt.argKinds[j] {
				case "ref", "slice.arr", "if.pay", "time.loc", "opaque":
					guards = append(guards, fmt.Sprintf("(< %s %s)", vn, idx))
				}
			}
		}
		for _, cmp := range fv.m.Flatten(pt.rt) {
			name := fmt.Sprintf("%s%s", pt.base, sanitize(cmp.Path))
			newApp := App(name, append(append([]string(nil), vars...), pt.heapTerms...)...)
			oldApp := App(name, append(append([]string(nil), vars...), prevs...)...)
			fv.ctx.axioms = append(fv.ctx.axioms, fmt.Sprintf("(forall (%s) (! (=> %s (= %s %s)) :pattern (%s)))", strings.Join(decls, " "), And(guards...), newApp, oldApp, newApp))
		}
		// the older combination is a combination too (its own initialisation step, and the axioms, apply to it)
		tk := pt.base + " " + strings.Join(prevs, " ")
		if _, seen := fv.pureTuples[tk]; !seen && len(fv.pureTuples) < 200 {
			fv.pureTuples[tk] = &pureTuple{base: pt.base, keys: pt.keys, heapTerms: prevs, sorts: pt.sorts, argKinds: pt.argKinds, rt: pt.rt}
			fv.pureTupleOrder = append(fv.pureTupleOrder, tk)
		}
	}
	// standard-library string predicates on literal constants are evaluated (ground facts)
	if lits := fv.ctx.litOrder; len(lits) <= 80 {
		for name, f := range map[string]func(a, b string) bool{"pf$strings__HasSuffix": strings.HasSuffix, "pf$strings__HasPrefix": strings.HasPrefix, "pf$strings__Contains": strings.Contains} {
			if !fv.ctx.declared[name] {
				continue
			}
			for _, a := range lits {
				for _, b := range lits {
					t := App(name, fv.ctx.lits[a], fv.ctx.lits[b])
					if !f(a, b) {
						t = Not(t)
					}
					fv.ctx.axioms = append(fv.ctx.axioms, t)
				}
			}
		}
	}
}

func specFuncsIn(e SExpr) []string {
	var out []string
	var walk func(e SExpr)
	walk = func(e SExpr) {
		switch x := e.(type) {
		case *SUn:
			walk(x.X)
		case *SBin:
			walk(x.X)
			walk(x.Y)
		case *STern:
			walk(x.C)
			walk(x.A)
			walk(x.B)
		case *SCall:
			if id, ok := x.Fun.(*SIdent); ok {
				out = append(out, id.Name)
			} else {
				walk(x.Fun)
			}
			for _, a := range x.Args {
				walk(a)
			}
		case *SSel:
			walk(x.X)
		case *SIndex:
			walk(x.X)
			walk(x.I)
		case *SQuant:
			walk(x.Body)
		case *SAssert:
			walk(x.X)
		}
	}
	walk(e)
	return out
}

var _ = ssa.BuilderMode(0)

func (fv *FuncVC) ifaceMethodSig(key string) *types.Signature {
	// key: <pkgpath>.<Iface>.<Method>
	i := strings.LastIndex(key, ".")
	if i < 0 {
		return nil
	}
	method := key[i+1:]
	rest := key[:i]
	j := strings.LastIndex(rest, ".")
	if j < 0 {
		return nil
	}
	pkgPath, iface := rest[:j], rest[j+1:]
	p := fv.v.allPkgs[pkgPath]
	if p == nil {
		p = fv.v.allPkgs[modulePath+"/"+pkgPath]
	}
	if p == nil || p.Types == nil {
		return nil
	}
	o := p.Types.Scope().Lookup(iface)
	if o == nil {
		return nil
	}
	it, ok := o.Type().Underlying().(*types.Interface)
	if !ok {
		return nil
	}
	for k := 0; k < it.NumMethods(); k++ {
		if it.Method(k).Name() == method {
			return it.Method(k).Type().(*types.Signature)
		}
	}
	return nil
}

// VerifyLemma: a straight-line script of contract-level calls followed by assertions.
func VerifyLemma(v *Verifier, l *Lemma, prop string) *FuncVC {
	fv := NewFuncVC(v, nil, nil, prop)
	fv.nameOverride = strings.TrimPrefix(l.Pkg, modulePath+"/") + ".lemma:" + l.Name
	fv.uses = l.Uses
	fv.revealed = l.Reveal
	defer func() {
		if r := recover(); r != nil {
			if ee, ok := r.(*EngineError); ok {
				panic(&EngineError{"lemma " + l.Name + ": " + ee.Msg})
			}
			panic(r)
		}
	}()
	fv.ctx.Const("cnt0", SInt)
	fv.ctx.Assume("(> cnt0 0)")
	st := &State{heap: map[string]string{}, cnt: "cnt0", ghost: map[string]Val{}}
	pkg := v.allPkgs[l.Pkg]
	if pkg == nil {
		engineErr("package %s not loaded", l.Pkg)
	}
	names := map[string]Val{}
	for _, p := range l.Params {
		t, err := v.ResolveType(p.Type, pkg.Types)
		if err != nil {
			engineErr("%v", err)
		}
		val := fv.m.FreshVal("in."+p.Name, t)
		fv.typeFacts(val, st, "true")
		names[p.Name] = val
	}
	entry := st.Clone()
	fr := &Frame{depth: 0, vals: map[ssa.Value]Val{}}
	fv.topFrame = &Frame{entrySt: entry}
	for _, step := range l.Steps {
		env := &SpecEnv{fv: fv, names: names, cur: st, old: entry, pkg: pkg.Types}
		if step.Call {
			key := l.Pkg + "::" + normalizeFuncKey(step.Fun)
			fn := v.funcsByKey[key]
			var recvArg []SExpr
			if fn == nil {
				// m.Method(...) on a lemma parameter
				if i := strings.Index(step.Fun, "."); i > 0 {
					if rv, ok := names[step.Fun[:i]]; ok && rv.T != nil {
						ms := v.prog.MethodSets.MethodSet(rv.T)
						for k := 0; k < ms.Len(); k++ {
							if ms.At(k).Obj().Name() == step.Fun[i+1:] {
								fn = v.prog.MethodValue(ms.At(k))
							}
						}
						recvArg = []SExpr{&SIdent{step.Fun[:i]}}
					}
				}
			}
			if fn == nil {
				engineErr("call of unknown function %s", step.Fun)
			}
			step.Args = append(recvArg, step.Args...)
			con := v.contracts[fn]
			if con == nil {
				engineErr("lemma calls %s which has no contract", step.Fun)
			}
			var args []Val
			for i, a := range step.Args {
				av := fv.evalSpec(env, a)
				if i < len(fn.Params) {
					if av.T == untypedNil {
						av = fv.m.Zero(fn.Params[i].Type())
					}
					av.T = fn.Params[i].Type()
				}
				args = append(args, av)
			}
			res := fv.applyContract(fr, st, "true", fn, con, args, nil, fv.resultType(fn), step.Clause.Pos)
			names[step.Name] = res
			continue
		}
		if step.Assume {
			fv.ctx.Assume(fv.evalClause(env, step.Clause))
			continue
		}
		fv.oblige("lemma", clauseLabel(step.Clause), "true", fv.evalClause(env, step.Clause), step.Clause.Text, step.Clause.Pos)
	}
	fv.finalize()
	return fv
}

// retryLoopBinding: if the function has `loop n` blocks, some obligation of the first attempt does not discharge and the
// code has a different number of loops than the highest `loop n`, the contract's loops are tried against every
// order-preserving choice of code loops; the first choice under which everything discharges is used (an un-annotated
// loop added or removed by an edit is then not an alarm). Returns nil when the first attempt stands.
func retryLoopBinding(v *Verifier, fn *ssa.Function, con *Contract, prop string, workdir string, tier string, first *FuncVC) *FuncVC {
	if con == nil || len(con.Loops) == 0 {
		return nil
	}
	nCode := len(computeLoops(fn))
	var specOrds []int
	maxSpec := 0
	for n := range con.Loops {
		specOrds = append(specOrds, n)
		if n > maxSpec {
			maxSpec = n
		}
	}
	sort.Ints(specOrds)
	if nCode < len(specOrds) {
		return retryHelperLoops(v, fn, con, prop, workdir, tier, specOrds, nCode)
	}
	timeout := 10
	if tier == "thorough" {
		timeout = 60
	}
	allOK := func(fv *FuncVC) bool {
		DischargeAll(fv.obls, workdir, timeout, runtime.NumCPU(), 0, false)
		for _, o := range fv.obls {
			if o.Cover {
				if o.Result == "unsat" {
					return false
				}
				continue
			}
			if o.Result != "unsat" {
				return false
			}
		}
		return true
	}
	// (the caller has discharged the first attempt and found a failure)
	_ = first
	// order-preserving injections of the contract's loops into the code's loops
	var combos [][]int
	var rec func(start int, cur []int)
	rec = func(start int, cur []int) {
		if len(cur) == len(specOrds) {
			combos = append(combos, append([]int(nil), cur...))
			return
		}
		for c := start; c <= nCode; c++ {
			rec(c+1, append(cur, c))
		}
	}
	rec(1, nil)
	if len(combos) > 24 {
		return nil
	}
	for _, combo := range combos {
		same := true
		remap := map[int]int{}
		for i, c := range combo {
			remap[c] = specOrds[i]
			if c != specOrds[i] {
				same = false
			}
		}
		if same {
			continue
		}
		var fv2 *FuncVC
		func() {
			defer func() {
				if r := recover(); r != nil {
					fv2 = nil
				}
			}()
			fv2 = NewFuncVC(v, fn, con, prop)
			fv2.loopRemap = remap
			fv2.VerifyTop()
		}()
		if fv2 == nil || len(fv2.obls) == 0 {
			continue
		}
		if allOK(fv2) {
			fmt.Fprintf(os.Stderr, "note: %s: the loops of the function were renumbered by an edit; its `loop n` blocks hold for the code loops %v\n", shortFuncName(fn), combo)
			return fv2
		}
	}
	return nil
}

// retryHelperLoops: the function has fewer loops than its contract has `loop n` blocks - a loop may have been extracted
// into a new helper ("extract method"). The contract-less module functions it calls directly are searched for loops;
// the contract's blocks are assigned, in order, to the function's own loops and to those helper loops, and the first
// assignment under which everything discharges is used. The blocks are evaluated in the helper's frame with the
// function's entry state as `old` and its variables as a fall-back for names.
func retryHelperLoops(v *Verifier, fn *ssa.Function, con *Contract, prop string, workdir string, tier string, specOrds []int, nCode int) *FuncVC {
	type hl struct {
		key string
		ord int
	}
	var helpers []hl
	seen := map[*ssa.Function]bool{}
	var collect func(f *ssa.Function, depth int)
	collect = func(f *ssa.Function, depth int) {
		for _, b := range f.Blocks {
			for _, in := range b.Instrs {
				ci, ok := in.(ssa.CallInstruction)
				if !ok {
					continue
				}
				c := ci.Common().StaticCallee()
				if c == nil || seen[c] || v.contracts[c] != nil || len(c.Blocks) == 0 || pkgOf(c) == nil || !isModulePkg(pkgOf(c)) {
					continue
				}
				seen[c] = true
				n := len(computeLoops(c))
				for i := 1; i <= n; i++ {
					helpers = append(helpers, hl{funcKey(c), i})
				}
				if depth < 1 {
					collect(c, depth+1)
				}
			}
		}
	}
	collect(fn, 0)
	if len(helpers) == 0 || len(helpers) > 4 {
		return nil
	}
	timeout := 10
	if tier == "thorough" {
		timeout = 60
	}
	// positions: own loops 1..nCode, then helper loops; choose an order-preserving injection of the spec loops
	total := nCode + len(helpers)
	var combos [][]int
	var rec func(start int, cur []int)
	rec = func(start int, cur []int) {
		if len(cur) == len(specOrds) {
			combos = append(combos, append([]int(nil), cur...))
			return
		}
		for c := start; c <= total; c++ {
			rec(c+1, append(cur, c))
		}
	}
	rec(1, nil)
	if len(combos) > 24 {
		return nil
	}
	for _, combo := range combos {
		remap := map[int]int{}
		hmap := map[string]int{}
		for i, c := range combo {
			if c <= nCode {
				remap[c] = specOrds[i]
			} else {
				h := helpers[c-nCode-1]
				hmap[fmt.Sprintf("%s#%d", h.key, h.ord)] = specOrds[i]
			}
		}
		if len(hmap) == 0 {
			continue
		}
		var fv2 *FuncVC
		func() {
			defer func() {
				if r := recover(); r != nil {
					if os.Getenv("GOCV_DEBUG_RETRY") != "" {
						fmt.Fprintf(os.Stderr, "[retry] %v: %v\n", hmap, r)
					}
					fv2 = nil
				}
			}()
			fv2 = NewFuncVC(v, fn, con, prop)
			fv2.loopRemap = remap
			if len(remap) == 0 {
				fv2.loopRemap = map[int]int{-1: -1}
			}
			fv2.helperLoops = hmap
			fv2.VerifyTop()
		}()
		if fv2 == nil || len(fv2.obls) == 0 {
			continue
		}
		DischargeAll(fv2.obls, workdir, timeout, runtime.NumCPU(), 0, false)
		ok := true
		for _, o := range fv2.obls {
			if o.Cover {
				if o.Result == "unsat" {
					ok = false
				}
				continue
			}
			if o.Result != "unsat" {
				ok = false
			}
		}
		if os.Getenv("GOCV_DEBUG_RETRY") != "" {
			for _, o := range fv2.obls {
				if !o.Cover && o.Result != "unsat" {
					fmt.Fprintf(os.Stderr, "[retry] %v: %s %s %s\n", hmap, o.Name, o.Result, truncate(o.Model, 300))
				}
			}
		}
		if ok {
			fmt.Fprintf(os.Stderr, "note: %s: a loop of the function was moved into a helper by an edit; its `loop n` blocks hold with the assignment %v (own loops 1..%d, then helper loops %v)\n", shortFuncName(fn), combo, nCode, helpers)
			return fv2
		}
	}
	return nil
}

var unresolvedRe = regexp.MustCompile(`unresolved name "([A-Za-z_][A-Za-z0-9_]*)"`)

// verifyWithAliases generates the obligations of fn. If a loop invariant / local post-condition names a
// local variable that no longer exists (renamed or removed by an edit), every other local of the
// function is tried in its role; the first one with which all obligations of the function discharge is
// used (a rename is then not an alarm). If none does, the function yields one failed obligation.
func verifyWithAliases(v *Verifier, fn *ssa.Function, con *Contract, prop string, workdir string, tier string) *FuncVC {
	try := func(aliases map[string]string) (fv *FuncVC, missing string, err *EngineError) {
		fv = NewFuncVC(v, fn, con, prop)
		fv.aliases = aliases
		defer func() {
			if r := recover(); r != nil {
				ee, ok := r.(*EngineError)
				if !ok {
					if aliases == nil {
						panic(r)
					}
					// an ill-typed stand-in: this candidate does not work
					ee = &EngineError{fmt.Sprint(r)}
				}
				err = ee
				if m := unresolvedRe.FindStringSubmatch(ee.Msg); m != nil {
					missing = m[1]
				}
			}
		}()
		fv.VerifyTop()
		return
	}
	fv, missing, err := try(nil)
	if err == nil {
		return fv
	}
	if missing == "" {
		// the contract no longer fits the code (a method, field or loop it names is gone) or the function left the
		// generator's subset: its obligations cannot be generated, which leaves its clauses undecided - one failed
		// obligation (on the unchanged tree every contract resolves, so this only arises from a change to /repo)
		fv = NewFuncVC(v, fn, con, prop)
		fv.obls = append(fv.obls, &Obligation{Name: fmt.Sprintf("%s/%s/contract-applies", prop, fv.funcName()), Kind: "contract:applies", Func: fv.funcName(), Pos: v.prog.Fset.Position(fn.Pos()).String(),
			Text: "the contract of the function resolves against its code, so its obligations can be generated", ctx: fv.ctx, Static: true, Solver: "generator", Result: "failed", Model: err.Msg})
		return fv
	}
	// candidate locals
	seen := map[string]bool{missing: true}
	var cands []string
	var walk func(f *ssa.Function)
	walk = func(f *ssa.Function) {
		for _, b := range f.Blocks {
			for _, in := range b.Instrs {
				switch x := in.(type) {
				case *ssa.Phi:
					if x.Comment != "" && !seen[x.Comment] && x.Comment != "rangeindex" {
						seen[x.Comment] = true
						cands = append(cands, x.Comment)
					}
				case *ssa.DebugRef:
					if id, ok := x.Expr.(*ast.Ident); ok && !seen[id.Name] {
						seen[id.Name] = true
						cands = append(cands, id.Name)
					}
				}
			}
		}
	}
	walk(fn)
	timeout := 10
	if tier == "thorough" {
		timeout = 60
	}
	var tried []string
	// several locals may have been renamed at once: depth-first over the names that turn up missing (at most three), every
	// other local tried in each role; only complete assignments are discharged (at most 16 of them)
	discharges := 0
	var search func(aliases map[string]string, miss string, depth int) *FuncVC
	search = func(aliases map[string]string, miss string, depth int) *FuncVC {
		for _, c := range cands {
			used := false
			for _, a := range aliases {
				if a == c {
					used = true
				}
			}
			if used {
				continue
			}
			next := map[string]string{}
			for k, a := range aliases {
				next[k] = a
			}
			next[miss] = c
			fv2, miss2, err2 := try(next)
			if err2 != nil {
				if miss2 != "" && miss2 != miss && depth < 3 {
					if _, seenName := next[miss2]; !seenName {
						if r := search(next, miss2, depth+1); r != nil {
							return r
						}
					}
				}
				continue
			}
			if len(fv2.obls) == 0 || discharges >= 16 {
				continue
			}
			discharges++
			tried = append(tried, fmt.Sprint(next))
			DischargeAll(fv2.obls, workdir, timeout, runtime.NumCPU(), 0, false)
			ok := true
			for _, o := range fv2.obls {
				if o.Cover {
					if o.Result == "unsat" {
						ok = false
					}
					continue
				}
				if o.Result != "unsat" {
					ok = false
				}
			}
			if ok {
				fmt.Fprintf(os.Stderr, "note: %s: locals named by the contract no longer exist; its clauses hold with the renaming %v\n", shortFuncName(fn), next)
				return fv2
			}
		}
		return nil
	}
	if r := search(map[string]string{}, missing, 1); r != nil {
		return r
	}
	fv = NewFuncVC(v, fn, con, prop)
	o := &Obligation{Name: fmt.Sprintf("%s/%s/inv[local %s]", prop, fv.funcName(), missing), Kind: "inv.init", Func: fv.funcName(), Pos: v.prog.Fset.Position(fn.Pos()).String(),
		Text: err.Msg, ctx: fv.ctx, Static: true, Solver: "name-resolution", Result: "failed",
		Model: fmt.Sprintf("the contract names the local variable %q, which no longer exists in %s, and none of the other locals (tried: %s) re-establishes the clauses in its role", missing, shortFuncName(fn), strings.Join(tried, ", "))}
	fv.obls = append(fv.obls, o)
	return fv
}
