package main

// Representation invariants of struct types (`//@ typeinv T: <expr over self.f>`).
//
// The invariant is a data-structure contract in the usual sense: every function that can break it (a *writer*: it
// stores to one of the fields the invariant mentions, or allocates a T) must have re-established it, for every T it
// can name, whenever it returns; every other function may then rely on it for every T it gets hold of.
//
//   - non-writers: at every point where a value of type *T is defined (parameter, load, type assertion, call result,
//     phi - anything but an allocation) the invariant of that object is assumed in the state of that point, and again
//     after every call for the *T values whose definition dominates the call (callees are verified to preserve it).
//   - writers: the invariant is assumed for the parameters / captured variables at entry only, and at every return it is
//     an obligation `typeinv[T]` for every *T value whose definition dominates the return (parameters, allocations,
//     loaded references). A store through a reference that is not visible at a return it can reach is reported as an
//     undischarged obligation, never skipped.
//   - that the set of writers is what the sweep believes is checked module-wide by the structural obligation
//     `typeinv_writers` (every writer lies in the swept packages and is claimed).
//
// Not covered (listed as assumptions in evidence): stores by reflection / unsafe (none in the module), and re-entrancy -
// a writer that calls out while an object is broken (the writers of the module are straight-line initialisers).

import (
	"encoding/json"
	"fmt"
	"os"
	"path/filepath"
	"go/token"
	"go/types"
	"regexp"
	"sort"
	"strings"

	"golang.org/x/tools/go/ssa"
)

// typeInvOf: the invariant declared for the struct type t points to (t = *T), if any
func (v *Verifier) typeInvOf(t types.Type) *TypeInvDef {
	if len(v.typeinvs) == 0 || t == nil {
		return nil
	}
	pt, ok := t.Underlying().(*types.Pointer)
	if !ok {
		return nil
	}
	nt, ok := pt.Elem().(*types.Named)
	if !ok || nt.Obj().Pkg() == nil {
		return nil
	}
	return v.typeinvs[nt.Obj().Pkg().Path()+"."+nt.Obj().Name()]
}

func (ti *TypeInvDef) key() string { return ti.Pkg + "." + ti.Type }

// fields the invariant mentions (self.f)
func (ti *TypeInvDef) fields() map[string]bool {
	out := map[string]bool{}
	for _, m := range selfFieldRe.FindAllStringSubmatch(ti.Text, -1) {
		out[m[1]] = true
	}
	return out
}

// isTypeInvWriter: fn stores to a field the invariant mentions or allocates a T (closures count for themselves)
func (v *Verifier) isTypeInvWriter(fn *ssa.Function, ti *TypeInvDef) bool {
	if v.tiWriters == nil {
		v.tiWriters = map[string]map[*ssa.Function]bool{}
	}
	c := v.tiWriters[ti.key()]
	if c == nil {
		c = map[*ssa.Function]bool{}
		v.tiWriters[ti.key()] = c
	}
	if w, ok := c[fn]; ok {
		return w
	}
	w := false
	flds := ti.fields()
	for _, b := range fn.Blocks {
		for _, in := range b.Instrs {
			switch x := in.(type) {
			case *ssa.Alloc:
				if v.typeInvOf(x.Type()) == ti {
					w = true
				}
			case *ssa.Store:
				if fa, ok := x.Addr.(*ssa.FieldAddr); ok && v.typeInvOf(fa.X.Type()) == ti {
					st := fa.X.Type().Underlying().(*types.Pointer).Elem().Underlying().(*types.Struct)
					if flds[st.Field(fa.Field).Name()] {
						w = true
					}
				}
			}
		}
	}
	c[fn] = w
	return w
}

// typeInvTerm: the invariant of the object r (a reference term) in state st
func (fv *FuncVC) typeInvTerm(ti *TypeInvDef, r Val, st *State) string {
	env := &SpecEnv{fv: fv, names: map[string]Val{"self": r}, cur: st, old: st}
	if p := fv.v.allPkgs[ti.Pkg]; p != nil {
		env.pkg = p.Types
	}
	fv.m.readLogPaused++
	defer func() { fv.m.readLogPaused-- }()
	return fv.evalSpec(env, ti.Expr).One()
}

// assumeTypeInv: x (of type *T with an invariant) has just been defined in frame fr
func (fv *FuncVC) assumeTypeInv(fr *Frame, x ssa.Value, v Val, st *State, reach string) {
	ti := fv.v.typeInvOf(x.Type())
	if ti == nil || len(v.C) != 1 {
		return
	}
	if _, isAlloc := x.(*ssa.Alloc); isAlloc {
		return
	}
	if fr.fn != fv.fn && fv.v.isTypeInvWriter(fv.fn, ti) {
		return // inside a writer nothing is assumed in the frames of inlined callees (the object may be under construction)
	}
	if fv.v.isTypeInvWriter(fr.fn, ti) {
		// a writer may have broken the object itself; only its inputs are assumed well-formed (at entry)
		switch x.(type) {
		case *ssa.Parameter, *ssa.FreeVar:
		default:
			return
		}
	}
	fv.assumed["type invariant "+ti.Type+": "+ti.Text+" (established by every function that stores to these fields or allocates the type: obligation typeinv["+ti.Type+"])"] = true
	fv.ctx.Assume(Implies(And(reach, Not(Eq(v.One(), "0"))), fv.typeInvTerm(ti, v, st)))
}

// reassumeTypeInvAfterCall: callees preserve the invariant; restate it in the post-call state for the *T values whose
// definition dominates block b (non-writer frames only)
func (fv *FuncVC) reassumeTypeInvAfterCall(fr *Frame, b *ssa.BasicBlock, st *State, reach string) {
	if len(fv.v.typeinvs) == 0 {
		return
	}
	for _, x := range fv.typeInvValues(fr, b) {
		ti := fv.v.typeInvOf(x.Type())
		if fv.v.isTypeInvWriter(fr.fn, ti) {
			continue
		}
		v, ok := fr.vals[x]
		if !ok || len(v.C) != 1 {
			continue
		}
		fv.ctx.Assume(Implies(And(reach, Not(Eq(v.One(), "0"))), fv.typeInvTerm(ti, v, st)))
	}
}

// typeInvValues: the *T-typed SSA values of fr.fn defined so far whose definition dominates b, in a fixed order
func (fv *FuncVC) typeInvValues(fr *Frame, b *ssa.BasicBlock) []ssa.Value {
	var out []ssa.Value
	add := func(x ssa.Value) {
		if fv.v.typeInvOf(x.Type()) != nil {
			if _, ok := fr.vals[x]; ok {
				out = append(out, x)
			}
		}
	}
	for _, p := range fr.fn.Params {
		add(p)
	}
	for _, f := range fr.fn.FreeVars {
		add(f)
	}
	for _, blk := range fr.fn.Blocks {
		if !blk.Dominates(b) {
			continue
		}
		for _, in := range blk.Instrs {
			if x, ok := in.(ssa.Value); ok {
				add(x)
			}
		}
	}
	return out
}

// checkTypeInvAtReturn: obligations of a writer at a return in block b
func (fv *FuncVC) checkTypeInvAtReturn(fr *Frame, b *ssa.BasicBlock, st *State, reach string, pos string) {
	if len(fv.v.typeinvs) == 0 || !fr.top {
		return
	}
	keys := make([]string, 0, len(fv.v.typeinvs))
	for k := range fv.v.typeinvs {
		keys = append(keys, k)
	}
	sort.Strings(keys)
	for _, k := range keys {
		ti := fv.v.typeinvs[k]
		if !fv.v.isTypeInvWriter(fr.fn, ti) {
			continue
		}
		for _, x := range fv.typeInvValues(fr, b) {
			if fv.v.typeInvOf(x.Type()) != ti {
				continue
			}
			v := fr.vals[x]
			if len(v.C) != 1 {
				continue
			}
			fv.oblige("typeinv", ti.Type, reach, Implies(Not(Eq(v.One(), "0")), fv.typeInvTerm(ti, v, st)),
				fmt.Sprintf("representation invariant of %s holds for %s on return: %s", ti.Type, x.Name(), ti.Text), pos)
		}
		// stores through references that are not visible here
		flds := ti.fields()
		for _, blk := range fr.fn.Blocks {
			for _, in := range blk.Instrs {
				s, ok := in.(*ssa.Store)
				if !ok {
					continue
				}
				fa, ok := s.Addr.(*ssa.FieldAddr)
				if !ok || fv.v.typeInvOf(fa.X.Type()) != ti {
					continue
				}
				stt := fa.X.Type().Underlying().(*types.Pointer).Elem().Underlying().(*types.Struct)
				if !flds[stt.Field(fa.Field).Name()] {
					continue
				}
				vi, isInstr := fa.X.(ssa.Instruction)
				if !isInstr || vi.Block() == nil {
					continue // a parameter or captured variable: visible at every return
				}
				if !vi.Block().Dominates(b) && blockReaches(blk, b) {
					fv.oblige("typeinv", ti.Type+":hidden", reach, "false",
						fmt.Sprintf("store to %s.%s at %s through a reference that is not visible at this return (restructure or add a contract)", ti.Type, stt.Field(fa.Field).Name(), fv.pos(s.Pos())), pos)
				}
			}
		}
	}
}

func blockReaches(from, to *ssa.BasicBlock) bool {
	seen := map[*ssa.BasicBlock]bool{}
	var walk func(b *ssa.BasicBlock) bool
	walk = func(b *ssa.BasicBlock) bool {
		if b == to {
			return true
		}
		if seen[b] {
			return false
		}
		seen[b] = true
		for _, s := range b.Succs {
			if walk(s) {
				return true
			}
		}
		return false
	}
	return walk(from)
}

// typeInvWriters: every function of the module that is a writer of some declared invariant (for the structural check)
func (v *Verifier) typeInvWriters() map[string][]string {
	out := map[string][]string{}
	for k, ti := range v.typeinvs {
		for _, fn := range v.moduleFunctions(true) {
			if len(fn.Blocks) == 0 {
				continue
			}
			if v.isTypeInvWriter(fn, ti) {
				out[k] = append(out[k], shortKey(fn))
			}
		}
		sort.Strings(out[k])
	}
	return out
}

// typeInvWritersCheck (structural kind `typeinv_writers`): for every declared representation invariant, every function
// of the module (tests and cmd/ excluded) that stores to a field it mentions or allocates the type is verified by this
// property - it is in the committed claimed list of the no-panic sweep, where it carries the obligation typeinv[T] at
// every return. A new writer anywhere in the module that is not verified makes the reliance of everybody else unsound
// and is reported.
func (v *Verifier) typeInvWritersCheck(cfg PropConfig, sc StructuralCheck) []StructResult {
	var list SweepList
	if d, err := os.ReadFile(filepath.Join("/verif", "sweeps", cfg.ID+".json")); err == nil {
		json.Unmarshal(d, &list)
	}
	claimed := map[string]bool{}
	for _, k := range list.Claimed {
		claimed[k] = true
	}
	for _, f := range cfg.Functions {
		claimed[f] = true
	}
	keys := make([]string, 0, len(v.typeinvs))
	for k := range v.typeinvs {
		keys = append(keys, k)
	}
	sort.Strings(keys)
	var out []StructResult
	for _, k := range keys {
		ti := v.typeinvs[k]
		var bad, seen []string
		for _, fn := range v.moduleFunctions(false) {
			if fn.Synthetic != "" || !v.isTypeInvWriter(fn, ti) {
				continue
			}
			sk := shortKey(fn)
			seen = append(seen, sk)
			if !claimed[sk] {
				bad = append(bad, sk)
			}
		}
		r := StructResult{Name: fmt.Sprintf("%s/structural/typeinv_writers[%s]", cfg.ID, ti.Type), Kind: "typeinv_writers",
			Text: fmt.Sprintf("every function that stores to a field of the invariant of %s (%s) or allocates the type is verified to re-establish it (claimed by the sweep)", ti.Type, ti.Text),
			OK:   len(bad) == 0 && len(seen) > 0}
		if len(seen) == 0 {
			r.Detail = "no writer found (vacuous: the type or its fields were renamed?)"
		} else if len(bad) > 0 {
			r.Detail = "writers not verified: " + strings.Join(bad, ", ")
		} else {
			r.Detail = "writers: " + strings.Join(seen, ", ")
		}
		out = append(out, r)
	}
	if len(out) == 0 {
		out = append(out, StructResult{Name: fmt.Sprintf("%s/structural/typeinv_writers[none]", cfg.ID), Kind: "typeinv_writers", Text: "representation invariants are declared", Detail: "no typeinv declaration found", OK: false})
	}
	return out
}

var selfFieldRe = regexp.MustCompile(`\bself\.([A-Za-z_][A-Za-z0-9_]*)`)

var _ = strings.Contains

// resliceAppend (structural kind `reslice_append`, C08 and assumption A2): `append(x[:k], ...)` writes into the backing
// array of x, over elements x still shows to whoever else holds it. That is only harmless when x was made by this very
// function (make, a composite literal, the result of an earlier append to such a slice). Every other site - a slice that
// came in as a parameter, out of a field, a map, or from a call (e.g. the session assets' internal lists) - is reported
// unless listed in `allowed` with the reason.
func (v *Verifier) resliceAppend(cfg PropConfig, sc StructuralCheck) []StructResult {
	var a struct {
		Allowed []string `json:"allowed"` // "<func key>" of justified sites
	}
	json.Unmarshal(sc.Args, &a)
	var fresh func(x ssa.Value, depth int) bool
	fresh = func(x ssa.Value, depth int) bool {
		if depth > 12 {
			return false
		}
		switch y := x.(type) {
		case *ssa.MakeSlice:
			return true
		case *ssa.Alloc:
			return true
		case *ssa.Const:
			return y.Value == nil // nil slice
		case *ssa.ChangeType:
			return fresh(y.X, depth+1)
		case *ssa.Slice:
			return fresh(y.X, depth+1)
		case *ssa.Phi:
			for _, e := range y.Edges {
				if e != x && !fresh(e, depth+1) {
					return false
				}
			}
			return true
		case *ssa.Call:
			if b, ok := y.Call.Value.(*ssa.Builtin); ok && b.Name() == "append" {
				return fresh(y.Call.Args[0], depth+1)
			}
			return false
		case *ssa.UnOp:
			// load of a local cell: fresh if every store to the cell stores a fresh value
			if al, ok := y.X.(*ssa.Alloc); ok && y.Op == token.MUL {
				for _, r := range *al.Referrers() {
					if st, ok := r.(*ssa.Store); ok && st.Addr == al {
						if !fresh(st.Val, depth+1) {
							return false
						}
					}
				}
				return true
			}
			return false
		}
		return false
	}
	// tainted: the value may be a re-slice x[:k] of a slice that is not this function's own (directly, through a phi, a local
	// cell, or as the result of appending to such a re-slice - which stays inside the shared array until it outgrows it)
	var tainted func(x ssa.Value, seenV map[ssa.Value]bool) bool
	tainted = func(x ssa.Value, seenV map[ssa.Value]bool) bool {
		if seenV[x] {
			return false
		}
		seenV[x] = true
		switch y := x.(type) {
		case *ssa.ChangeType:
			return tainted(y.X, seenV)
		case *ssa.Slice:
			if _, isSlice := y.X.Type().Underlying().(*types.Slice); !isSlice {
				return false
			}
			if y.High != nil && !fresh(y.X, 0) {
				return true
			}
			return tainted(y.X, seenV)
		case *ssa.Phi:
			for _, e := range y.Edges {
				if tainted(e, seenV) {
					return true
				}
			}
		case *ssa.Call:
			if b, ok := y.Call.Value.(*ssa.Builtin); ok && b.Name() == "append" {
				return tainted(y.Call.Args[0], seenV)
			}
		case *ssa.UnOp:
			if al, ok := y.X.(*ssa.Alloc); ok && y.Op == token.MUL {
				for _, r := range *al.Referrers() {
					if st, ok := r.(*ssa.Store); ok && st.Addr == al && tainted(st.Val, seenV) {
						return true
					}
				}
			}
		}
		return false
	}
	var bad, seen []string
	n := 0
	for _, fn := range v.moduleFunctions(false) {
		for _, b := range fn.Blocks {
			for _, in := range b.Instrs {
				c, ok := in.(*ssa.Call)
				if !ok {
					continue
				}
				bi, ok := c.Call.Value.(*ssa.Builtin)
				if !ok || bi.Name() != "append" || len(c.Call.Args) == 0 {
					continue
				}
				if !tainted(c.Call.Args[0], map[ssa.Value]bool{}) {
					continue
				}
				n++
				site := fmt.Sprintf("%s (%s)", shortKey(fn), v.prog.Fset.Position(c.Pos()))
				seen = append(seen, site)
				if matchAny(shortKey(fn), a.Allowed) {
					continue
				}
				bad = append(bad, site)
			}
		}
	}
	r := StructResult{Name: fmt.Sprintf("%s/structural/reslice_append[%s]", cfg.ID, sc.Name), Kind: "reslice_append",
		Text: "no append onto a re-slice x[:k] of a slice this function did not make itself (the append would overwrite elements of a backing array that others still read: session assets, contact lists, definition lists)",
		OK:   len(bad) == 0}
	if len(bad) > 0 {
		r.Detail = "appends into a shared backing array: " + strings.Join(bad, "; ")
	} else {
		r.Detail = fmt.Sprintf("%d append(x[:k], ...) sites, all on slices made locally or justified: %s", n, strings.Join(seen, "; "))
	}
	return []StructResult{r}
}

// callersVerified (structural kind `callers_verified`): every function of the module that calls `callee` is verified by this
// property (in the sweep's claimed list or among its functions) - so the callee's precondition, which a representation
// invariant rests on, is an obligation at every call site there is, not only at the ones that happen to be in scope.
func (v *Verifier) callersVerified(cfg PropConfig, sc StructuralCheck) []StructResult {
	var a struct {
		Callee string `json:"callee"`
	}
	json.Unmarshal(sc.Args, &a)
	callee := v.funcsByKey[modulePath+"/"+a.Callee]
	if callee == nil {
		engineErr("structural %s: unknown function %s", sc.Name, a.Callee)
	}
	var list SweepList
	if d, err := os.ReadFile(filepath.Join("/verif", "sweeps", cfg.ID+".json")); err == nil {
		json.Unmarshal(d, &list)
	}
	claimed := map[string]bool{}
	for _, k := range list.Claimed {
		claimed[k] = true
	}
	for _, f := range cfg.Functions {
		claimed[f] = true
	}
	var bad, seen []string
	for _, fn := range v.moduleFunctions(false) {
		if fn.Synthetic != "" || !v.callsFunction(fn, callee) {
			continue
		}
		k := shortKey(fn)
		seen = append(seen, k)
		if !claimed[k] {
			bad = append(bad, k)
		}
	}
	r := StructResult{Name: fmt.Sprintf("%s/structural/callers_verified[%s]", cfg.ID, sc.Name), Kind: "callers_verified",
		Text: "every caller of " + a.Callee + " is a verified function (its precondition is an obligation at every call site of the module)", OK: len(bad) == 0 && len(seen) > 0}
	if len(bad) > 0 {
		r.Detail = "callers not verified: " + strings.Join(bad, ", ")
	} else {
		r.Detail = "callers: " + strings.Join(seen, ", ")
	}
	return []StructResult{r}
}
