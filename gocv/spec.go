package main

// Contract language: lexer, expression parser, contract-file parser.

import (
	"fmt"
	"os"
	"regexp"
	"strconv"
	"strings"
)

// ---- AST

type SExpr interface{}

type (
	SIdent  struct{ Name string }
	SIntLit struct{ V string }
	SStrLit struct{ V string }
	SBoolL  struct{ V bool }
	SNil    struct{}
	SUn     struct {
		Op string
		X  SExpr
	}
	SBin struct {
		Op   string
		X, Y SExpr
	}
	STern struct{ C, A, B SExpr }
	SCall struct {
		Fun  SExpr
		Args []SExpr
	}
	SSel struct {
		X    SExpr
		Name string
	}
	SIndex struct{ X, I SExpr }
	SQuant struct {
		Forall   bool
		Vars     []SVar
		Body     SExpr
		Triggers []SExpr // optional explicit pattern (one multi-pattern)
	}
	SAssert struct { // x.(T)
		X    SExpr
		Type string
	}
	SSeqLit struct{ Elems []SExpr }
)

type SVar struct{ Name, Type string }

// ---- lexer

type tok struct {
	kind string // id, int, str, op, eof, type
	s    string
}

var ops = []string{"<==>", "==>", "&&", "||", "==", "!=", "<=", ">=", "++", "::", ":=", "<", ">", "+", "-", "*", "/", "%", "!", "(", ")", "[", "]", ".", ",", "?", ":", "{", "}"}

func lex(src string) ([]tok, error) {
	var out []tok
	i := 0
	for i < len(src) {
		c := src[i]
		switch {
		case c == ' ' || c == '\t' || c == '\n':
			i++
		case c == '"':
			j := i + 1
			for j < len(src) && src[j] != '"' {
				if src[j] == '\\' {
					j++
				}
				j++
			}
			if j >= len(src) {
				return nil, fmt.Errorf("unterminated string in %q", src)
			}
			s, err := strconv.Unquote(src[i : j+1])
			if err != nil {
				return nil, err
			}
			out = append(out, tok{"str", s})
			i = j + 1
		case c >= '0' && c <= '9':
			j := i
			for j < len(src) && (src[j] >= '0' && src[j] <= '9') {
				j++
			}
			out = append(out, tok{"int", src[i:j]})
			i = j
		case c == '_' || c == '$' || c >= 'a' && c <= 'z' || c >= 'A' && c <= 'Z':
			j := i
			for j < len(src) && (src[j] == '_' || src[j] == '$' || src[j] >= 'a' && src[j] <= 'z' || src[j] >= 'A' && src[j] <= 'Z' || src[j] >= '0' && src[j] <= '9') {
				j++
			}
			out = append(out, tok{"id", src[i:j]})
			i = j
		default:
			matched := false
			for _, op := range ops {
				if strings.HasPrefix(src[i:], op) {
					out = append(out, tok{"op", op})
					i += len(op)
					matched = true
					break
				}
			}
			if !matched {
				return nil, fmt.Errorf("unexpected character %q in %q", c, src)
			}
		}
	}
	out = append(out, tok{"eof", ""})
	return out, nil
}

type sparser struct {
	toks []tok
	p    int
	src  string
}

func (p *sparser) peek() tok { return p.toks[p.p] }
func (p *sparser) next() tok { t := p.toks[p.p]; p.p++; return t }
func (p *sparser) isOp(s string) bool {
	t := p.peek()
	return t.kind == "op" && t.s == s
}
func (p *sparser) accept(s string) bool {
	if p.isOp(s) {
		p.p++
		return true
	}
	return false
}
func (p *sparser) expect(s string) {
	if !p.accept(s) {
		panic(fmt.Errorf("expected %q at token %d (%q) in %q", s, p.p, p.peek().s, p.src))
	}
}

func ParseSpecExpr(src string) (e SExpr, err error) {
	toks, err := lex(src)
	if err != nil {
		return nil, err
	}
	p := &sparser{toks: toks, src: src}
	defer func() {
		if r := recover(); r != nil {
			if er, ok := r.(error); ok {
				err = er
				return
			}
			panic(r)
		}
	}()
	e = p.parseExpr()
	if p.peek().kind != "eof" {
		return nil, fmt.Errorf("trailing tokens at %q in %q", p.peek().s, src)
	}
	return e, nil
}

func (p *sparser) parseExpr() SExpr { return p.parseIff() }

func (p *sparser) parseIff() SExpr {
	x := p.parseImpl()
	for p.accept("<==>") {
		y := p.parseImpl()
		x = &SBin{"<==>", x, y}
	}
	return x
}

func (p *sparser) parseImpl() SExpr {
	x := p.parseTern()
	if p.accept("==>") {
		y := p.parseImpl()
		return &SBin{"==>", x, y}
	}
	return x
}

func (p *sparser) parseTern() SExpr {
	c := p.parseOr()
	if p.accept("?") {
		a := p.parseTern()
		p.expect(":")
		b := p.parseTern()
		return &STern{c, a, b}
	}
	return c
}

func (p *sparser) parseOr() SExpr {
	x := p.parseAnd()
	for p.accept("||") {
		x = &SBin{"||", x, p.parseAnd()}
	}
	return x
}

func (p *sparser) parseAnd() SExpr {
	x := p.parseCmp()
	for p.accept("&&") {
		x = &SBin{"&&", x, p.parseCmp()}
	}
	return x
}

func isCmp(s string) bool {
	switch s {
	case "==", "!=", "<", "<=", ">", ">=":
		return true
	}
	return false
}

func (p *sparser) parseCmp() SExpr {
	x := p.parseCat()
	var res SExpr
	for p.peek().kind == "op" && isCmp(p.peek().s) {
		op := p.next().s
		y := p.parseCat()
		c := &SBin{op, x, y}
		if res == nil {
			res = c
		} else {
			res = &SBin{"&&", res, c}
		}
		x = y
	}
	if res == nil {
		return x
	}
	return res
}

func (p *sparser) parseCat() SExpr {
	x := p.parseAdd()
	for p.accept("++") {
		x = &SBin{"++", x, p.parseAdd()}
	}
	return x
}

func (p *sparser) parseAdd() SExpr {
	x := p.parseMul()
	for p.isOp("+") || p.isOp("-") {
		op := p.next().s
		x = &SBin{op, x, p.parseMul()}
	}
	return x
}

func (p *sparser) parseMul() SExpr {
	x := p.parseUnary()
	for p.isOp("*") || p.isOp("/") || p.isOp("%") {
		op := p.next().s
		x = &SBin{op, x, p.parseUnary()}
	}
	return x
}

func (p *sparser) parseUnary() SExpr {
	if p.accept("!") {
		return &SUn{"!", p.parseUnary()}
	}
	if p.accept("-") {
		return &SUn{"-", p.parseUnary()}
	}
	if p.accept("*") { // only meaningful in type positions: typeis(x, *T)
		return &SUn{"*", p.parseUnary()}
	}
	return p.parsePostfix()
}

// parseTypeText collects tokens of a Go type until one of the stop operators at depth 0.
func (p *sparser) parseTypeText(stops ...string) string {
	var b strings.Builder
	depth := 0
	for {
		t := p.peek()
		if t.kind == "eof" {
			break
		}
		if t.kind == "op" && depth == 0 {
			stop := false
			for _, s := range stops {
				if t.s == s {
					stop = true
				}
			}
			if stop {
				break
			}
		}
		if t.kind == "op" && (t.s == "[" || t.s == "(") {
			depth++
		}
		if t.kind == "op" && (t.s == "]" || t.s == ")") {
			if depth == 0 {
				break
			}
			depth--
		}
		p.next()
		if t.kind == "id" && b.Len() > 0 {
			last := b.String()[b.Len()-1]
			if last != '.' && last != '*' && last != ']' && last != '[' {
				b.WriteByte(' ')
			}
		}
		b.WriteString(t.s)
	}
	return b.String()
}

func (p *sparser) parsePostfix() SExpr {
	x := p.parsePrimary()
	for {
		switch {
		case p.accept("."):
			if p.accept("(") {
				ty := p.parseTypeText(")")
				p.expect(")")
				x = &SAssert{x, ty}
				continue
			}
			t := p.next()
			if t.kind != "id" && t.kind != "int" {
				panic(fmt.Errorf("expected field name after '.' in %q", p.src))
			}
			x = &SSel{x, t.s}
		case p.accept("["):
			i := p.parseExpr()
			p.expect("]")
			x = &SIndex{x, i}
		case p.accept("("):
			var args []SExpr
			if !p.isOp(")") {
				for {
					args = append(args, p.parseExpr())
					if !p.accept(",") {
						break
					}
				}
			}
			p.expect(")")
			x = &SCall{x, args}
		default:
			return x
		}
	}
}

func (p *sparser) parsePrimary() SExpr {
	t := p.next()
	switch t.kind {
	case "int":
		return &SIntLit{t.s}
	case "str":
		return &SStrLit{t.s}
	case "id":
		switch t.s {
		case "true":
			return &SBoolL{true}
		case "false":
			return &SBoolL{false}
		case "nil":
			return &SNil{}
		case "forall", "exists":
			var vars []SVar
			for {
				n := p.next()
				if n.kind != "id" {
					panic(fmt.Errorf("expected bound variable name in %q", p.src))
				}
				ty := p.parseTypeText(",", "::", "{")
				if ty == "" {
					ty = "int"
				}
				vars = append(vars, SVar{n.s, ty})
				if !p.accept(",") {
					break
				}
			}
			var trig []SExpr
			if p.accept("{") {
				for {
					trig = append(trig, p.parseExpr())
					if !p.accept(",") {
						break
					}
				}
				p.expect("}")
			}
			p.expect("::")
			body := p.parseExpr()
			return &SQuant{t.s == "forall", vars, body, trig}
		}
		return &SIdent{t.s}
	case "op":
		if t.s == "(" {
			e := p.parseExpr()
			p.expect(")")
			return e
		}
		if t.s == "[" {
			var el []SExpr
			if !p.isOp("]") {
				for {
					el = append(el, p.parseExpr())
					if !p.accept(",") {
						break
					}
				}
			}
			p.expect("]")
			return &SSeqLit{el}
		}
	}
	panic(fmt.Errorf("unexpected token %q in %q", t.s, p.src))
}

// ---- contract files

type Clause struct {
	Trusted bool             // assumed at call sites, not an obligation of the body (justified elsewhere, listed in evidence)
	Local   bool             // post-condition over the function's locals: an obligation of the function, not visible to callers
	Witness map[string]SExpr // hints: witnesses for the outermost existential(s) of the clause
	Label   string
	Expr    SExpr
	Text    string
	Pos     string
}

type LoopSpec struct {
	Invariants []Clause
	Decreases  *Clause
	Modifies   []string // optional extra names
}

type LetDef struct {
	Name string
	Expr SExpr
	Old  bool // evaluate in entry state
}

type AssignsItem struct {
	Computed bool   // the write set computed from the function's own body (plus whatever else is listed)
	Callback string // effects(<named func type>): whatever that callback type's contract assigns
	All      bool
	Text     string
	Expr     SExpr  // location-level: expr.field / expr[*]
	TypeT    string // type-level: T::field
	Field    string
}

// keySpec is the readKeys form of a type-level item: T::field, elems[T] or map[K]V
func (it AssignsItem) keySpec() string {
	if strings.HasPrefix(it.TypeT, "elems[") || strings.HasPrefix(it.TypeT, "map[") {
		return it.TypeT
	}
	return it.TypeT + "::" + it.Field
}

type CallbackSpec struct {
	Param    string
	Args     []string
	Requires []Clause
	Ensures  []Clause
	Assigns  []AssignsItem
	Pure     bool
}

type Contract struct {
	Pkg          string // package path
	Key          string // function key within package, e.g. "(*run).getText", "dateComparison", "(*session).tryToResume$1"
	File         string
	Requires     []Clause
	Ensures      []Clause
	Assigns      []AssignsItem
	HasAssigns   bool
	Loops        map[int]*LoopSpec
	Lets         []LetDef
	NoPanic      bool
	NoPanicUntil string
	Pure         bool     // result is a function of the arguments (and Reads)
	Reads        []string // heap arrays (T::field) a pure function depends on
	Trusted      bool     // ext contract: assumed, body not verified
	FrameTrusted bool     // the assigns clause is assumed, the rest verified
	Callbacks    map[string]*CallbackSpec
	Inline       bool // force inlining at call sites instead of contract
	Opaque       bool // never inline, havoc
	Iface        bool // contract for an interface method
	GhostCalls   []Clause
	Records      []Clause // history tokens: uninterpreted predicates asserted of the call's arguments/results (assumed at call sites, nothing to check)
	Reveal       []string // opaque predicates whose definitions are expanded when verifying this function
	FrameCalls   []string // callees abstracted by the assigns clause of their own contract (requires / ensures not used)
	HavocCalls   []string // callees whose calls are abstracted by their computed write set here (their contracts/bodies are not used)
	Forget       []string // "callee" or "callee:label": callee ensures that are not imported when verifying this function (keeps queries small)
	Uses         []string // axioms to include when verifying this function
	Implements   []string // pkg.Iface.Method interface contracts this function must satisfy
	Probes       []LetDef // replay probes: named spec expressions evaluated in the entry state
}

type LemmaStep struct {
	Assume bool
	Call   bool
	Name   string // result binding for calls
	Fun    string
	Args   []SExpr
	Clause Clause
}

type Lemma struct {
	Name   string
	Params []SVar
	Steps  []LemmaStep
	Reveal []string
	Uses   []string
	Pkg    string
	Pos    string
}

type PureDef struct {
	Name    string
	Params  []SVar
	Ret     string
	Reads   []string
	Body    SExpr // nil => uninterpreted
	Text    string
	IsPred  bool
	Opaque  bool // treated as uninterpreted (over the heap arrays its body reads) unless revealed
	Pkg     string
	Pos     string
	Trigger bool
}

type AxiomDef struct {
	Name string
	Expr SExpr
	Text string
	Pkg  string
	Pos  string
}

type GhostDef struct {
	Name string
	Type string
	Pkg  string
	// Protected: only contracts that name the ghost in an assigns clause change it; a havoc of "everything"
	// (unknown callee) leaves it alone. Sound only together with a structural obligation that closes the
	// set of callers of the functions whose contracts assign it.
	Protected bool
}

// ImmutableDef: heap keys that are written only while the object is being constructed (justified by a
// writers_subset structural obligation); a havoc of "everything" leaves them alone.
type ImmutableDef struct {
	Spec string
	Pkg  string
}

// TypeInvDef: a representation invariant of a struct type (`typeinv T: expr over self.f`), see typeinv.go
type TypeInvDef struct {
	Type, Text, Pkg, Pos string
	Expr                 SExpr
}

type SpecFile struct {
	TypeInvs   []*TypeInvDef
	Immutables []ImmutableDef
	Path       string
	Pkg        string
	Contracts  []*Contract
	Pures      []*PureDef
	Axioms     []*AxiomDef
	Ghosts     []*GhostDef
	Lemmas     []*Lemma
}

var keywordRe = regexp.MustCompile(`^(package|func|interface|requires|ensures|assigns|invariant|decreases|loop|pure|pred|axiom|ghost|nopanic|let|letold|reads|trusted|callback|cb_requires|cb_ensures|cb_assigns|cb_pure|inline|opaque|modifies|implements|lemma|call|assert|probe|uses|records|witness|forget|checks|havocs|reveal|immutable|ensures_trusted|frames|frame_trusted|typeinv)\b`)

var labelRe = regexp.MustCompile(`^\[([A-Za-z0-9_./-]+)\]\s*`)

// ParseSpecFile reads `//@` lines from a Go file or every non-comment line from a .spec file.
func ParseSpecFile(path string, data []byte, defaultPkg string) (*SpecFile, error) {
	sf := &SpecFile{Path: path, Pkg: defaultPkg}
	isGo := strings.HasSuffix(path, ".go")
	type stmt struct {
		kw, text string
		line     int
	}
	var stmts []stmt
	for i, ln := range strings.Split(string(data), "\n") {
		l := strings.TrimSpace(ln)
		if isGo {
			if !strings.HasPrefix(l, "//@") {
				continue
			}
			l = strings.TrimSpace(l[3:])
		} else {
			if strings.HasPrefix(l, "#") || strings.HasPrefix(l, "//") {
				continue
			}
		}
		if l == "" {
			continue
		}
		if idx := strings.Index(l, " //"); idx >= 0 && !strings.Contains(l[idx:], "\"") {
			l = strings.TrimSpace(l[:idx])
		}
		if m := keywordRe.FindString(l); m != "" {
			stmts = append(stmts, stmt{m, strings.TrimSpace(l[len(m):]), i + 1})
		} else if len(stmts) > 0 {
			stmts[len(stmts)-1].text += " " + l
		} else {
			return nil, fmt.Errorf("%s:%d: text before any keyword", path, i+1)
		}
	}
	var cur *Contract
	var curLemma *Lemma
	var curLoop *LoopSpec
	var curCB *CallbackSpec
	mkClause := func(s stmt) (Clause, error) {
		text := s.text
		label := ""
		if m := labelRe.FindStringSubmatch(text); m != nil {
			label = m[1]
			text = text[len(m[0]):]
		}
		e, err := ParseSpecExpr(text)
		if err != nil {
			return Clause{}, fmt.Errorf("%s:%d: %v", path, s.line, err)
		}
		return Clause{Label: label, Expr: e, Text: text, Pos: fmt.Sprintf("%s:%d", path, s.line)}, nil
	}
	parseAssigns := func(text string) ([]AssignsItem, error) {
		var items []AssignsItem
		for _, part := range splitTop(text, ',') {
			part = strings.TrimSpace(part)
			if part == "" || part == "nothing" {
				continue
			}
			if part == "*" {
				items = append(items, AssignsItem{All: true, Text: part})
				continue
			}
			if part == "computed" {
				items = append(items, AssignsItem{Computed: true, Text: part})
				continue
			}
			if strings.HasPrefix(part, "effects(") && strings.HasSuffix(part, ")") {
				items = append(items, AssignsItem{Callback: strings.TrimSpace(part[8 : len(part)-1]), Text: part})
				continue
			}
			if strings.HasPrefix(part, "elems[") || strings.HasPrefix(part, "map[") {
				// type-level: all elements of slices of T / all entries of maps of that type
				items = append(items, AssignsItem{TypeT: part, Text: part})
				continue
			}
			if i := strings.Index(part, "::"); i >= 0 {
				items = append(items, AssignsItem{TypeT: strings.TrimSpace(part[:i]), Field: strings.TrimSpace(part[i+2:]), Text: part})
				continue
			}
			e, err := ParseSpecExpr(part)
			if err != nil {
				return nil, err
			}
			items = append(items, AssignsItem{Expr: e, Text: part})
		}
		return items, nil
	}
	for _, s := range stmts {
		switch s.kw {
		case "package":
			sf.Pkg = strings.TrimSpace(s.text)
			cur = nil
		case "lemma":
			name, params := parseSig(s.text)
			curLemma = &Lemma{Name: name, Params: params, Pkg: sf.Pkg, Pos: fmt.Sprintf("%s:%d", path, s.line)}
			sf.Lemmas = append(sf.Lemmas, curLemma)
			cur = nil
		case "call":
			if curLemma == nil {
				return nil, fmt.Errorf("%s:%d: call outside lemma", path, s.line)
			}
			i := strings.Index(s.text, ":=")
			if i < 0 {
				return nil, fmt.Errorf("%s:%d: call needs name := f(args)", path, s.line)
			}
			e, err := ParseSpecExpr(s.text[i+2:])
			if err != nil {
				return nil, fmt.Errorf("%s:%d: %v", path, s.line, err)
			}
			ce, ok := e.(*SCall)
			if !ok {
				return nil, fmt.Errorf("%s:%d: call needs a call expression", path, s.line)
			}
			curLemma.Steps = append(curLemma.Steps, LemmaStep{Call: true, Name: strings.TrimSpace(s.text[:i]), Fun: specExprTextSafe(ce.Fun), Args: ce.Args, Clause: Clause{Text: s.text, Pos: fmt.Sprintf("%s:%d", path, s.line)}})
		case "assert":
			if curLemma == nil {
				return nil, fmt.Errorf("%s:%d: assert outside lemma", path, s.line)
			}
			cl, err := mkClause(s)
			if err != nil {
				return nil, err
			}
			curLemma.Steps = append(curLemma.Steps, LemmaStep{Clause: cl})
		case "reveal":
			names := strings.Fields(strings.ReplaceAll(s.text, ",", " "))
			if curLemma != nil {
				curLemma.Reveal = append(curLemma.Reveal, names...)
			} else {
				cur.Reveal = append(cur.Reveal, names...)
			}
		case "havocs":
			cur.HavocCalls = append(cur.HavocCalls, strings.Fields(strings.ReplaceAll(s.text, ",", " "))...)
		case "frames":
			cur.FrameCalls = append(cur.FrameCalls, strings.Fields(strings.ReplaceAll(s.text, ",", " "))...)
		case "forget":
			cur.Forget = append(cur.Forget, strings.Fields(strings.ReplaceAll(s.text, ",", " "))...)
		case "uses":
			names := strings.Fields(strings.ReplaceAll(s.text, ",", " "))
			if curLemma != nil {
				curLemma.Uses = append(curLemma.Uses, names...)
			} else if cur != nil {
				cur.Uses = append(cur.Uses, names...)
			}
		case "implements":
			cur.Implements = append(cur.Implements, strings.TrimSpace(s.text))
		case "probe":
			i := strings.Index(s.text, ":=")
			if i < 0 {
				return nil, fmt.Errorf("%s:%d: probe needs :=", path, s.line)
			}
			e, err := ParseSpecExpr(s.text[i+2:])
			if err != nil {
				return nil, fmt.Errorf("%s:%d: %v", path, s.line, err)
			}
			cur.Probes = append(cur.Probes, LetDef{Name: strings.TrimSpace(s.text[:i]), Expr: e})
		case "func", "interface":
			curLemma = nil
			key := normalizeFuncKey(s.text)
			cur = &Contract{Pkg: sf.Pkg, Key: key, File: path, Loops: map[int]*LoopSpec{}, Callbacks: map[string]*CallbackSpec{}, Iface: s.kw == "interface"}
			sf.Contracts = append(sf.Contracts, cur)
			curLoop = nil
			curCB = nil
		case "witness":
			// witness [label] k := expr   (attaches to the ensures clause with that label)
			text := s.text
			label := ""
			if m := labelRe.FindStringSubmatch(text); m != nil {
				label = m[1]
				text = text[len(m[0]):]
			}
			i := strings.Index(text, ":=")
			if i < 0 || cur == nil {
				return nil, fmt.Errorf("%s:%d: witness [label] name := expr", path, s.line)
			}
			e, err := ParseSpecExpr(text[i+2:])
			if err != nil {
				return nil, fmt.Errorf("%s:%d: %v", path, s.line, err)
			}
			found := false
			for k := range cur.Ensures {
				if cur.Ensures[k].Label == label {
					if cur.Ensures[k].Witness == nil {
						cur.Ensures[k].Witness = map[string]SExpr{}
					}
					cur.Ensures[k].Witness[strings.TrimSpace(text[:i])] = e
					found = true
				}
			}
			if !found {
				return nil, fmt.Errorf("%s:%d: witness for unknown ensures label %q", path, s.line, label)
			}
		case "records":
			cl, err := mkClause(s)
			if err != nil {
				return nil, err
			}
			cur.Records = append(cur.Records, cl)
		case "checks":
			cl, err := mkClause(s)
			if err != nil {
				return nil, err
			}
			cl.Local = true
			cur.Ensures = append(cur.Ensures, cl)
		case "requires", "ensures", "invariant", "decreases", "cb_requires", "cb_ensures":
			if cur == nil && curLemma != nil && s.kw == "requires" {
				cl, err := mkClause(s)
				if err != nil {
					return nil, err
				}
				curLemma.Steps = append(curLemma.Steps, LemmaStep{Assume: true, Clause: cl})
				continue
			}
			if cur == nil {
				return nil, fmt.Errorf("%s:%d: %s outside func", path, s.line, s.kw)
			}
			cl, err := mkClause(s)
			if err != nil {
				return nil, err
			}
			switch s.kw {
			case "requires":
				cur.Requires = append(cur.Requires, cl)
			case "ensures":
				cur.Ensures = append(cur.Ensures, cl)
			case "invariant":
				if curLoop == nil {
					return nil, fmt.Errorf("%s:%d: invariant outside loop", path, s.line)
				}
				curLoop.Invariants = append(curLoop.Invariants, cl)
			case "decreases":
				if curLoop == nil {
					return nil, fmt.Errorf("%s:%d: decreases outside loop", path, s.line)
				}
				c := cl
				curLoop.Decreases = &c
			case "cb_requires":
				curCB.Requires = append(curCB.Requires, cl)
			case "cb_ensures":
				curCB.Ensures = append(curCB.Ensures, cl)
			}
		case "assigns":
			items, err := parseAssigns(s.text)
			if err != nil {
				return nil, fmt.Errorf("%s:%d: %v", path, s.line, err)
			}
			cur.Assigns = append(cur.Assigns, items...)
			cur.HasAssigns = true
		case "cb_assigns":
			items, err := parseAssigns(s.text)
			if err != nil {
				return nil, fmt.Errorf("%s:%d: %v", path, s.line, err)
			}
			curCB.Assigns = append(curCB.Assigns, items...)
		case "cb_pure":
			curCB.Pure = true
		case "loop":
			n, err := strconv.Atoi(strings.TrimSuffix(strings.TrimSpace(s.text), ":"))
			if err != nil {
				return nil, fmt.Errorf("%s:%d: bad loop ordinal", path, s.line)
			}
			curLoop = &LoopSpec{}
			cur.Loops[n] = curLoop
		case "modifies":
			curLoop.Modifies = append(curLoop.Modifies, strings.Fields(strings.ReplaceAll(s.text, ",", " "))...)
		case "nopanic":
			cur.NoPanic = true
			// `nopanic until X`: safety obligations for the part of the function executed before the first call of X
			if f := strings.Fields(s.text); len(f) == 2 && f[0] == "until" {
				cur.NoPanicUntil = f[1]
			}
		case "trusted":
			cur.Trusted = true
		case "frame_trusted":
			// the assigns clause is assumed (the effect analysis over the coarse call graph cannot establish it); the
			// ensures clauses are still obligations of the body. Listed as an assumption in the evidence.
			cur.FrameTrusted = true
		case "inline":
			cur.Inline = true
		case "opaque":
			cur.Opaque = true
		case "reads":
			if cur != nil {
				cur.Reads = append(cur.Reads, strings.Fields(strings.ReplaceAll(s.text, ",", " "))...)
			}
		case "let", "letold":
			i := strings.Index(s.text, ":=")
			if i < 0 {
				return nil, fmt.Errorf("%s:%d: let needs :=", path, s.line)
			}
			e, err := ParseSpecExpr(s.text[i+2:])
			if err != nil {
				return nil, fmt.Errorf("%s:%d: %v", path, s.line, err)
			}
			cur.Lets = append(cur.Lets, LetDef{Name: strings.TrimSpace(s.text[:i]), Expr: e, Old: s.kw == "letold"})
		case "callback":
			// callback log(e)
			name, args := parseSig(s.text)
			curCB = &CallbackSpec{Param: name}
			for _, a := range args {
				curCB.Args = append(curCB.Args, a.Name)
			}
			cur.Callbacks[name] = curCB
		case "pure", "pred":
			if cur != nil && s.kw == "pure" && strings.TrimSpace(s.text) == "" {
				cur.Pure = true
				continue
			}
			pd, err := parsePureDef(s.text, s.kw == "pred")
			if err != nil {
				return nil, fmt.Errorf("%s:%d: %v", path, s.line, err)
			}
			pd.Pkg = sf.Pkg
			pd.Pos = fmt.Sprintf("%s:%d", path, s.line)
			sf.Pures = append(sf.Pures, pd)
		case "axiom":
			i := strings.Index(s.text, ":")
			if i < 0 {
				return nil, fmt.Errorf("%s:%d: axiom needs name:", path, s.line)
			}
			e, err := ParseSpecExpr(s.text[i+1:])
			if err != nil {
				return nil, fmt.Errorf("%s:%d: %v", path, s.line, err)
			}
			sf.Axioms = append(sf.Axioms, &AxiomDef{Name: strings.TrimSpace(s.text[:i]), Expr: e, Text: s.text[i+1:], Pkg: sf.Pkg, Pos: fmt.Sprintf("%s:%d", path, s.line)})
		case "typeinv":
			i := strings.Index(s.text, ":")
			if i < 0 {
				return nil, fmt.Errorf("%s:%d: typeinv needs `Type: expr`", path, s.line)
			}
			e, err := ParseSpecExpr(s.text[i+1:])
			if err != nil {
				return nil, fmt.Errorf("%s:%d: %v", path, s.line, err)
			}
			sf.TypeInvs = append(sf.TypeInvs, &TypeInvDef{Type: strings.TrimSpace(s.text[:i]), Expr: e, Text: strings.TrimSpace(s.text[i+1:]), Pkg: sf.Pkg, Pos: fmt.Sprintf("%s:%d", path, s.line)})
		case "immutable":
			for _, part := range splitTop(s.text, ',') {
				if part = strings.TrimSpace(part); part != "" {
					sf.Immutables = append(sf.Immutables, ImmutableDef{Spec: part, Pkg: sf.Pkg})
				}
			}
		case "ensures_trusted":
			if cur == nil {
				return nil, fmt.Errorf("%s:%d: ensures_trusted outside func", path, s.line)
			}
			cl, err := mkClause(s)
			if err != nil {
				return nil, err
			}
			cl.Trusted = true
			cur.Ensures = append(cur.Ensures, cl)
		case "ghost":
			f := strings.Fields(s.text)
			if len(f) < 2 {
				return nil, fmt.Errorf("%s:%d: ghost name type", path, s.line)
			}
			prot := false
			if f[len(f)-1] == "protected" {
				prot = true
				f = f[:len(f)-1]
			}
			sf.Ghosts = append(sf.Ghosts, &GhostDef{Name: f[0], Type: strings.Join(f[1:], " "), Pkg: sf.Pkg, Protected: prot})
		}
	}
	return sf, nil
}

func splitTop(s string, sep byte) []string {
	var out []string
	d := 0
	last := 0
	inStr := false
	for i := 0; i < len(s); i++ {
		c := s[i]
		if c == '"' {
			inStr = !inStr
		}
		if inStr {
			continue
		}
		switch c {
		case '(', '[':
			d++
		case ')', ']':
			d--
		}
		if c == sep && d == 0 {
			out = append(out, s[last:i])
			last = i + 1
		}
	}
	out = append(out, s[last:])
	return out
}

// normalizeFuncKey turns "(m *URNsModifier) Apply" / "(*URNsModifier).Apply" / "dateComparison"
// into the ssa-style key "(*URNsModifier).Apply".
func normalizeFuncKey(s string) string {
	s = strings.TrimSpace(s)
	if strings.HasPrefix(s, "(") {
		i := strings.Index(s, ")")
		recv := strings.TrimSpace(s[1:i])
		rest := strings.TrimSpace(s[i+1:])
		rest = strings.TrimPrefix(rest, ".")
		f := strings.Fields(recv)
		ty := f[len(f)-1]
		if strings.HasPrefix(ty, "*") {
			return "(" + ty + ")." + rest
		}
		return ty + "." + rest
	}
	return s
}

func parseSig(text string) (string, []SVar) {
	i := strings.Index(text, "(")
	if i < 0 {
		return strings.TrimSpace(text), nil
	}
	name := strings.TrimSpace(text[:i])
	j := matchParen(text, i)
	var vars []SVar
	for _, p := range splitTop(text[i+1:j], ',') {
		p = strings.TrimSpace(p)
		if p == "" {
			continue
		}
		f := strings.SplitN(p, " ", 2)
		v := SVar{Name: f[0]}
		if len(f) > 1 {
			v.Type = strings.TrimSpace(f[1])
		}
		vars = append(vars, v)
	}
	return name, vars
}

func matchParen(s string, i int) int {
	d := 0
	for j := i; j < len(s); j++ {
		if s[j] == '(' {
			d++
		} else if s[j] == ')' {
			d--
			if d == 0 {
				return j
			}
		}
	}
	return len(s) - 1
}

// pure name(a T, b U) R [reads X::f, Y::g] [:= expr]
func parsePureDef(text string, isPred bool) (*PureDef, error) {
	i := strings.Index(text, "(")
	if i < 0 {
		return nil, fmt.Errorf("bad pure/pred definition %q", text)
	}
	j := matchParen(text, i)
	name, params := parseSig(text[:j+1])
	rest := strings.TrimSpace(text[j+1:])
	pd := &PureDef{Name: name, Params: params, IsPred: isPred, Text: text}
	body := ""
	if k := strings.Index(rest, ":="); k >= 0 {
		body = strings.TrimSpace(rest[k+2:])
		rest = strings.TrimSpace(rest[:k])
	}
	if strings.HasSuffix(rest, " opaque") || rest == "opaque" {
		pd.Opaque = true
		rest = strings.TrimSpace(strings.TrimSuffix(rest, "opaque"))
	}
	if k := strings.Index(rest, "reads "); k >= 0 {
		pd.Reads = strings.Fields(strings.ReplaceAll(rest[k+6:], ",", " "))
		rest = strings.TrimSpace(rest[:k])
	}
	pd.Ret = rest
	if isPred && pd.Ret == "" {
		pd.Ret = "bool"
	}
	if body != "" {
		e, err := ParseSpecExpr(body)
		if err != nil {
			return nil, err
		}
		pd.Body = e
	}
	return pd, nil
}

func LoadSpecFile(path string, defaultPkg string) (*SpecFile, error) {
	data, err := os.ReadFile(path)
	if err != nil {
		return nil, err
	}
	return ParseSpecFile(path, data, defaultPkg)
}

func specExprTextSafe(e SExpr) string {
	switch x := e.(type) {
	case *SIdent:
		return x.Name
	case *SSel:
		return specExprTextSafe(x.X) + "." + x.Name
	}
	return ""
}
