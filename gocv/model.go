package main

// State model: flattening of Go types to SMT components, heap arrays, values.

import (
	"fmt"
	"go/types"
	"regexp"
	"sort"
	"strings"
)

type Comp struct {
	Path string
	Sort Sort
	T    types.Type // leaf Go type (for zero values / facts)
	Kind string     // int, uint, str, bool, real, ref, slice.arr, slice.off, slice.len, if.tag, if.pay, time.t, time.loc, dec
	Bits int
}

// Val is a symbolic value: SMT terms for each flattened component of T.
type Val struct {
	T  types.Type
	C  []string
	St *State   // optional: state snapshot to dereference in (spec evaluation of old(..))
	Cl *Closure // optional: statically known closure
	// spec-only values
	SpecSort Sort // if T == nil: a pure spec value of this sort with C[0]
}

type Closure struct {
	Fn       interface{} // *ssa.Function
	Bindings []Val
}

func (v Val) One() string {
	if len(v.C) != 1 {
		panic(fmt.Sprintf("value of type %v has %d components, expected 1", v.T, len(v.C)))
	}
	return v.C[0]
}

type Model struct {
	ctx           *Ctx
	flatCache     map[types.Type][]Comp
	qual          types.Qualifier
	defs          map[string]storeDef
	lazies        map[string]*lazyMerge
	allocStores   map[string]allocStore
	recording     map[string]HeapKey // when non-nil: heap keys read (used to compute the footprint of opaque predicates)
	readLog       map[string]bool    // when non-nil: heap keys read while a function body is executed (reads-clause check)
	readLogPaused int                // > 0 while a contract clause is being evaluated (what clauses read is not what the body reads)
}

func NewModel(ctx *Ctx) *Model {
	return &Model{ctx: ctx, flatCache: map[types.Type][]Comp{}, qual: func(p *types.Package) string { return p.Path() }}
}

func (m *Model) TypeKey(t types.Type) string {
	return sanitize(types.TypeString(t, m.qual))
}

func isNamed(t types.Type, pkg, name string) bool {
	n, ok := types.Unalias(t).(*types.Named)
	if !ok {
		return false
	}
	o := n.Obj()
	return o.Name() == name && o.Pkg() != nil && o.Pkg().Path() == pkg
}

func isTime(t types.Type) bool    { return isNamed(t, "time", "Time") }
func isDecimal(t types.Type) bool { return isNamed(t, "github.com/shopspring/decimal", "Decimal") }

func (m *Model) Flatten(t types.Type) []Comp {
	if c, ok := m.flatCache[t]; ok {
		return c
	}
	c := m.flatten(t)
	m.flatCache[t] = c
	return c
}

func (m *Model) flatten(t types.Type) []Comp {
	t = types.Unalias(t)
	if st, ok := t.(*SeqType); ok {
		out := []Comp{{".len", SInt, t, "seq.len", 0}}
		for _, c := range m.Flatten(st.Elem) {
			out = append(out, Comp{".e" + c.Path, ArrSort(SInt, c.Sort), t, "seq.arr", 0})
		}
		return out
	}
	if st, ok := t.(*SetType); ok {
		return []Comp{{"", ArrSort(m.keySort(st.Elem), SBool), t, "set", 0}}
	}
	if isTime(t) {
		return []Comp{{".t", SInt, t, "time.t", 0}, {".loc", SInt, t, "time.loc", 0}}
	}
	if isDecimal(t) {
		return []Comp{{".d", SReal, t, "dec", 0}}
	}
	switch u := t.Underlying().(type) {
	case *types.Basic:
		info := u.Info()
		switch {
		case info&types.IsBoolean != 0:
			return []Comp{{"", SBool, t, "bool", 0}}
		case info&types.IsString != 0:
			return []Comp{{"", SInt, t, "str", 0}}
		case info&types.IsInteger != 0:
			bits := 64
			switch u.Kind() {
			case types.Int8, types.Uint8:
				bits = 8
			case types.Int16, types.Uint16:
				bits = 16
			case types.Int32, types.Uint32:
				bits = 32
			}
			k := "int"
			if info&types.IsUnsigned != 0 {
				k = "uint"
			}
			if u.Kind() == types.UntypedInt || u.Kind() == types.UntypedRune {
				k = "mathint"
			}
			return []Comp{{"", SInt, t, k, bits}}
		case info&types.IsFloat != 0:
			return []Comp{{"", SReal, t, "real", 0}}
		case u.Kind() == types.UnsafePointer:
			return []Comp{{"", SInt, t, "ref", 0}}
		case u.Kind() == types.UntypedNil:
			return []Comp{{"", SInt, t, "ref", 0}}
		case info&types.IsComplex != 0:
			return []Comp{{"", SInt, t, "opaque", 0}}
		}
		return []Comp{{"", SInt, t, "opaque", 0}}
	case *types.Pointer, *types.Map, *types.Chan, *types.Signature:
		return []Comp{{"", SInt, t, "ref", 0}}
	case *types.Slice:
		return []Comp{{".arr", SInt, t, "slice.arr", 0}, {".off", SInt, t, "slice.off", 0}, {".len", SInt, t, "slice.len", 0}}
	case *types.Interface:
		return []Comp{{".tag", SInt, t, "if.tag", 0}, {".pay", SInt, t, "if.pay", 0}}
	case *types.Struct:
		var out []Comp
		for i := 0; i < u.NumFields(); i++ {
			f := u.Field(i)
			for _, c := range m.Flatten(f.Type()) {
				c.Path = "." + f.Name() + c.Path
				out = append(out, c)
			}
		}
		return out
	case *types.Array:
		return []Comp{{"", SInt, t, "opaque", 0}}
	case *types.Tuple:
		var out []Comp
		for i := 0; i < u.Len(); i++ {
			for _, c := range m.Flatten(u.At(i).Type()) {
				c.Path = fmt.Sprintf(".%d%s", i, c.Path)
				out = append(out, c)
			}
		}
		return out
	case *types.TypeParam:
		return []Comp{{".tag", SInt, t, "if.tag", 0}, {".pay", SInt, t, "if.pay", 0}}
	}
	panic(fmt.Sprintf("flatten: unsupported type %v (%T)", t, t.Underlying()))
}

// FieldRange returns [lo,hi) component indices of field i of struct type st (by value).
func (m *Model) FieldRange(st *types.Struct, i int) (int, int) {
	lo := 0
	for j := 0; j < i; j++ {
		lo += len(m.Flatten(st.Field(j).Type()))
	}
	return lo, lo + len(m.Flatten(st.Field(i).Type()))
}

func (m *Model) TupleRange(tp *types.Tuple, i int) (int, int) {
	lo := 0
	for j := 0; j < i; j++ {
		lo += len(m.Flatten(tp.At(j).Type()))
	}
	return lo, lo + len(m.Flatten(tp.At(i).Type()))
}

func (m *Model) ZeroComp(c Comp) string {
	switch c.Sort {
	case SBool:
		return "false"
	case SReal:
		return "0.0"
	}
	if c.Kind == "str" {
		return m.ctx.StrLit("")
	}
	return "0"
}

func (m *Model) Zero(t types.Type) Val {
	cs := m.Flatten(t)
	v := Val{T: t, C: make([]string, len(cs))}
	for i, c := range cs {
		v.C[i] = m.ZeroComp(c)
	}
	return v
}

// FreshVal makes a fresh symbolic value of type t and returns the type facts that hold for it.
func (m *Model) FreshVal(prefix string, t types.Type) Val {
	cs := m.Flatten(t)
	v := Val{T: t, C: make([]string, len(cs))}
	for i, c := range cs {
		v.C[i] = m.ctx.Fresh(prefix+c.Path, c.Sort)
	}
	return v
}

var pow2 = map[int]string{7: "128", 8: "256", 15: "32768", 16: "65536", 31: "2147483648", 32: "4294967296", 63: "9223372036854775808", 64: "18446744073709551616"}

// TypeFacts returns the facts that every well-typed value satisfies (range of ints, slice header
// sanity, refs allocated below cnt).
var initReadRe = regexp.MustCompile(`^\(select (\(select )?[^ ()]+@0 `)

// selectBase: the object (or backing array) a read `(select H base)` / `(select (select H arr) idx)` goes through
func selectBase(x string) string {
	if !strings.HasPrefix(x, "(select ") {
		return ""
	}
	rest := x[len("(select "):]
	if strings.HasPrefix(rest, "(select ") {
		// element read: the base is the array argument of the inner select
		inner := balanced(rest)
		if inner == "" {
			return ""
		}
		return selectBase(inner)
	}
	// field read: skip the heap name, take the next balanced term
	i := strings.IndexByte(rest, ' ')
	if i < 0 {
		return ""
	}
	return balanced(rest[i+1:])
}

// balanced: the first complete s-expression (or atom) at the start of s
func balanced(s string) string {
	if s == "" {
		return ""
	}
	if s[0] != '(' {
		i := strings.IndexAny(s, " )")
		if i < 0 {
			return s
		}
		return s[:i]
	}
	d := 0
	for i := 0; i < len(s); i++ {
		switch s[i] {
		case '(':
			d++
		case ')':
			d--
			if d == 0 {
				return s[:i+1]
			}
		}
	}
	return ""
}

func (m *Model) TypeFacts(v Val, cnt0 string) []string {
	if v.T == nil {
		return nil
	}
	cs := m.Flatten(v.T)
	var fs []string
	for i, c := range cs {
		x := v.C[i]
		cnt := cnt0
		// a reference read from the initial heap out of an object that existed at entry exists in the pre-state (the entry
		// heap is well-formed). The initial version also describes objects allocated later by callees whose contracts assign
		// nothing (their ensures talk about fresh indices of the same version), so the fact is guarded by the base object.
		guard0 := ""
		if cnt != "" && initReadRe.MatchString(x) {
			if base := selectBase(x); base != "" {
				guard0 = fmt.Sprintf("(=> (< %s cnt0) (< %s cnt0))", base, x)
			}
		}
		switch c.Kind {
		case "int":
			fs = append(fs, fmt.Sprintf("(and (>= %s (- %s)) (< %s %s))", x, pow2[c.Bits-1], x, pow2[c.Bits-1]))
		case "uint":
			fs = append(fs, fmt.Sprintf("(and (>= %s 0) (< %s %s))", x, x, pow2[c.Bits]))
		case "ref":
			if cnt != "" {
				fs = append(fs, fmt.Sprintf("(and (>= %s 0) (< %s %s))", x, x, cnt))
			} else {
				fs = append(fs, fmt.Sprintf("(>= %s 0)", x))
			}
			if guard0 != "" {
				fs = append(fs, guard0)
			}
		case "slice.arr":
			if cnt != "" {
				fs = append(fs, fmt.Sprintf("(and (>= %s 0) (< %s %s))", x, x, cnt))
			} else {
				fs = append(fs, fmt.Sprintf("(>= %s 0)", x))
			}
			if guard0 != "" {
				fs = append(fs, guard0)
			}
			// arr == 0 => len == 0
			fs = append(fs, fmt.Sprintf("(=> (= %s 0) (= %s 0))", x, v.C[i+2]))
		case "slice.off":
			fs = append(fs, fmt.Sprintf("(>= %s 0)", x))
		case "slice.len":
			fs = append(fs, fmt.Sprintf("(>= %s 0)", x))
		case "if.tag":
			fs = append(fs, fmt.Sprintf("(>= %s 0)", x))
			fs = append(fs, fmt.Sprintf("(=> (= %s 0) (= %s 0))", x, v.C[i+1]))
		}
	}
	return fs
}

// ---- heap

// State is the mutable part of the symbolic state. Heap arrays not present in the map have
// their initial (epoch) version.
type State struct {
	heap  map[string]string
	epoch int
	cnt   string
	ghost map[string]Val
	// allocation base: a snapshot of this state taken before a run of writes that only touched objects
	// allocated after the snapshot (anew). Pure/opaque applications whose reference arguments all exist
	// in the snapshot have the same value in both states (the snapshot heap is closed under reachability).
	abase *State
	anew  map[string]bool
	// merged from states of different epochs: heap keys none of them had touched yet are merged lazily on first use
	mergedFrom *mergeInfo
}

type mergeInfo struct {
	conds []string
	sts   []*State
}

// touch: a write that may concern an object that existed before the allocation base
func (s *State) touch() { s.abase = nil; s.anew = nil }

// noteAlloc records a freshly allocated reference
func (s *State) noteAlloc(r string) {
	if s.abase == nil {
		b := &State{heap: make(map[string]string, len(s.heap)), epoch: s.epoch, cnt: s.cnt, ghost: s.ghost}
		for k, v := range s.heap {
			b.heap[k] = v
		}
		s.abase = b
		s.anew = map[string]bool{}
	}
	s.anew[r] = true
}

func (s *State) Clone() *State {
	n := &State{heap: make(map[string]string, len(s.heap)), epoch: s.epoch, cnt: s.cnt, ghost: make(map[string]Val, len(s.ghost))}
	for k, v := range s.heap {
		n.heap[k] = v
	}
	for k, v := range s.ghost {
		n.ghost[k] = v
	}
	n.mergedFrom = s.mergedFrom
	if s.abase != nil {
		n.abase = s.abase
		n.anew = make(map[string]bool, len(s.anew))
		for k := range s.anew {
			n.anew[k] = true
		}
	}
	return n
}

type HeapKey struct {
	Key  string // unique name
	Sort Sort   // sort of the array
	Ref  bool   // the stored component is a reference (pointer, map, slice backing array)
}

type lazyMerge struct {
	conds []string
	terms []string
	sort  Sort
	key   string
	name  string // once materialised
}

// resolve materialises a lazily merged heap version (an ite over the incoming versions) the first
// time it is read; versions that are never read cost nothing.
func (m *Model) resolve(t string) string {
	if !strings.HasPrefix(t, "LAZY:") {
		return t
	}
	lz := m.lazies[t]
	if lz.name != "" {
		return lz.name
	}
	terms := make([]string, len(lz.terms))
	for i, x := range lz.terms {
		terms[i] = m.resolve(x)
		if strings.Contains(terms[i], "@") && !m.ctx.declared[terms[i]] {
			m.ctx.Const(terms[i], lz.sort)
		}
	}
	acc := terms[len(terms)-1]
	for i := len(terms) - 2; i >= 0; i-- {
		acc = Ite(lz.conds[i], terms[i], acc)
	}
	n := m.ctx.Fresh(lz.key, lz.sort)
	m.ctx.Assume(Eq(n, acc))
	lz.name = n
	return n
}

func (m *Model) heapGet(s *State, k HeapKey) string {
	if m.readLog != nil && m.readLogPaused == 0 {
		m.readLog[k.Key] = true
	}
	if m.recording != nil {
		m.recording[k.Key] = k
	}
	if t, ok := s.heap[k.Key]; ok {
		if strings.HasPrefix(t, "LAZY:") {
			t = m.resolve(t)
			s.heap[k.Key] = t
		}
		return t
	}
	if s.mergedFrom != nil {
		mi := s.mergedFrom
		terms := make([]string, len(mi.sts))
		same := true
		for i, p := range mi.sts {
			terms[i] = m.heapGet(p, k)
			if terms[i] != terms[0] {
				same = false
			}
		}
		t := terms[0]
		if !same {
			acc := terms[len(terms)-1]
			for i := len(terms) - 2; i >= 0; i-- {
				acc = Ite(mi.conds[i], terms[i], acc)
			}
			t = m.ctx.Fresh(k.Key, k.Sort)
			m.ctx.Assume(Eq(t, acc))
		}
		s.heap[k.Key] = t
		return t
	}
	name := fmt.Sprintf("%s@%d", k.Key, s.epoch)
	if !m.ctx.declared[name] {
		m.ctx.Const(name, k.Sort)
		// the entry heap is well-formed: every reference stored in an object that exists at entry exists in the pre-state.
		// (Guarded by the object: the initial version also describes, at fresh indices, objects allocated later by callees
		// whose contracts assign nothing; an unguarded axiom contradicts `fresh(result.f)` and makes those paths vacuous.)
		if s.epoch == 0 && (k.Ref || refKeys[k.Key]) {
			switch {
			case strings.HasPrefix(string(k.Sort), "(Array Int (Array Int Int"):
				m.ctx.axioms = append(m.ctx.axioms, fmt.Sprintf("(forall ((a Int) (i Int)) (! (=> (< a cnt0) (and (>= (select (select %s a) i) 0) (< (select (select %s a) i) cnt0))) :pattern ((select (select %s a) i))))", name, name, name))
			case k.Sort == ArrSort(SInt, SInt):
				m.ctx.axioms = append(m.ctx.axioms, fmt.Sprintf("(forall ((r Int)) (! (=> (< r cnt0) (and (>= (select %s r) 0) (< (select %s r) cnt0))) :pattern ((select %s r))))", name, name, name))
			}
		}
	}
	return name
}

var refKeys = map[string]bool{}

func isRefKind(k string) bool { return k == "ref" || k == "slice.arr" }

func (m *Model) heapSet(s *State, k HeapKey, term string) {
	// name the new version to keep terms small
	n := m.ctx.Fresh(k.Key, k.Sort)
	m.ctx.Assume(Eq(n, term))
	s.heap[k.Key] = n
	s.touch()
}

// heapSetAt: like heapSet for a term of the form store(H, idx, ..): a write to object idx only
func (m *Model) heapSetAt(s *State, k HeapKey, idx, term string) {
	prev := m.heapGet(s, k)
	n := m.ctx.Fresh(k.Key, k.Sort)
	m.ctx.Assume(Eq(n, term))
	s.heap[k.Key] = n
	if !s.anew[idx] {
		s.touch()
	} else {
		if m.allocStores == nil {
			m.allocStores = map[string]allocStore{}
		}
		m.allocStores[n] = allocStore{prev, idx}
	}
}

type storeDef struct{ prev, idx, val string }

// allocStore: version `name` of a heap array is `prev` with one object written that was freshly allocated at the time
// (the initialisation of a new object)
type allocStore struct{ prev, idx string }

// heapStore: H' = store(H, idx, val), remembered so that later reads of the same index are
// forwarded syntactically (keeps terms small and lets statically known dynamic types through).
func (m *Model) heapStore(s *State, k HeapKey, idx, val string) {
	prev := m.heapGet(s, k)
	n := m.ctx.Fresh(k.Key, k.Sort)
	m.ctx.Assume(Eq(n, Store(prev, idx, val)))
	s.heap[k.Key] = n
	if !s.anew[idx] {
		s.touch()
	} else {
		if m.allocStores == nil {
			m.allocStores = map[string]allocStore{}
		}
		m.allocStores[n] = allocStore{prev, idx}
	}
	if m.defs == nil {
		m.defs = map[string]storeDef{}
	}
	m.defs[n] = storeDef{prev, idx, val}
}

func distinctRefs(a, b string) bool {
	an, bn := strings.HasPrefix(a, "new!"), strings.HasPrefix(b, "new!")
	if an && bn {
		return a != b
	}
	old := func(x string) bool {
		return strings.HasPrefix(x, "in.") || strings.HasPrefix(x, "glob$") || strings.HasPrefix(x, "free.")
	}
	return an && old(b) || bn && old(a)
}

// Sel reads index idx of heap array version h, forwarding through remembered stores.
func (m *Model) Sel(h, idx string) string {
	for i := 0; i < 64; i++ {
		d, ok := m.defs[h]
		if !ok {
			break
		}
		if d.idx == idx {
			return d.val
		}
		if distinctRefs(d.idx, idx) {
			h = d.prev
			continue
		}
		break
	}
	return Select(h, idx)
}

func (m *Model) heapHavoc(s *State, k HeapKey) string {
	n := m.ctx.Fresh(k.Key, k.Sort)
	s.heap[k.Key] = n
	s.touch()
	return n
}

// Field heap: one array per flattened component of a struct field.
func (m *Model) FieldKeys(structT types.Type, field int) []HeapKey {
	st := structT.Underlying().(*types.Struct)
	f := st.Field(field)
	cs := m.Flatten(f.Type())
	out := make([]HeapKey, len(cs))
	for i, c := range cs {
		out[i] = HeapKey{Key: fmt.Sprintf("F$%s$%s%s", m.TypeKey(structT), f.Name(), sanitize(c.Path)), Sort: ArrSort(SInt, c.Sort), Ref: isRefKind(c.Kind)}
	}
	return m.regKeys(out)
}

// Cell heap: storage for *T where T is not a struct.
func (m *Model) CellKeys(t types.Type) []HeapKey {
	cs := m.Flatten(t)
	out := make([]HeapKey, len(cs))
	for i, c := range cs {
		out[i] = HeapKey{Key: fmt.Sprintf("C$%s%s", m.TypeKey(t), sanitize(c.Path)), Sort: ArrSort(SInt, c.Sort), Ref: isRefKind(c.Kind)}
	}
	return m.regKeys(out)
}

// Element heap: arr -> idx -> component
func (m *Model) ElemKeys(t types.Type) []HeapKey {
	cs := m.Flatten(t)
	out := make([]HeapKey, len(cs))
	for i, c := range cs {
		out[i] = HeapKey{Key: fmt.Sprintf("E$%s%s", m.TypeKey(t), sanitize(c.Path)), Sort: ArrSort(SInt, ArrSort(SInt, c.Sort)), Ref: isRefKind(c.Kind)}
	}
	return m.regKeys(out)
}

func (m *Model) keySort(k types.Type) Sort {
	cs := m.Flatten(k)
	if len(cs) != 1 {
		// composite keys: abstract to Int via an uninterpreted pairing (rare)
		return SInt
	}
	return cs[0].Sort
}

func (m *Model) MapDomKey(mt *types.Map) HeapKey {
	return m.regKeys([]HeapKey{{Key: fmt.Sprintf("MD$%s$%s", m.TypeKey(mt.Key()), m.TypeKey(mt.Elem())), Sort: ArrSort(SInt, ArrSort(m.keySort(mt.Key()), SBool))}})[0]
}

func (m *Model) MapValKeys(mt *types.Map) []HeapKey {
	cs := m.Flatten(mt.Elem())
	out := make([]HeapKey, len(cs))
	for i, c := range cs {
		out[i] = HeapKey{Key: fmt.Sprintf("MV$%s$%s%s", m.TypeKey(mt.Key()), m.TypeKey(mt.Elem()), sanitize(c.Path)), Sort: ArrSort(SInt, ArrSort(m.keySort(mt.Key()), c.Sort)), Ref: isRefKind(c.Kind) && m.keySort(mt.Key()) == SInt}
	}
	return m.regKeys(out)
}

func Select(a, i string) string   { return "(select " + a + " " + i + ")" }
func Store(a, i, v string) string { return "(store " + a + " " + i + " " + v + ")" }

// mergeStates builds the ite-merge of states under the given edge conditions.
func (m *Model) mergeStates(conds []string, sts []*State) *State {
	if len(sts) == 1 {
		return sts[0].Clone()
	}
	out := &State{heap: map[string]string{}, ghost: map[string]Val{}}
	// epoch: if all equal keep, else havoc (new epoch)
	out.epoch = sts[0].epoch
	sameEpoch := true
	for _, s := range sts[1:] {
		if s.epoch != out.epoch {
			sameEpoch = false
		}
	}
	keys := map[string]bool{}
	for _, s := range sts {
		for k := range s.heap {
			keys[k] = true
		}
	}
	if !sameEpoch {
		m.ctx.nfresh++
		out.epoch = 1000000 + m.ctx.nfresh
		out.mergedFrom = &mergeInfo{conds: append([]string(nil), conds...), sts: append([]*State(nil), sts...)}
	} else if sts[0].mergedFrom != nil {
		same := true
		for _, s := range sts[1:] {
			if s.mergedFrom != sts[0].mergedFrom {
				same = false
			}
		}
		if same {
			out.mergedFrom = sts[0].mergedFrom
		} else {
			out.mergedFrom = &mergeInfo{conds: append([]string(nil), conds...), sts: append([]*State(nil), sts...)}
		}
	}
	ks := make([]string, 0, len(keys))
	for k := range keys {
		ks = append(ks, k)
	}
	sort.Strings(ks)
	for _, k := range ks {
		// find sort from the declared const of any version
		var terms []string
		for _, s := range sts {
			if t, ok := s.heap[k]; ok {
				terms = append(terms, t)
			} else {
				name := fmt.Sprintf("%s@%d", k, s.epoch)
				terms = append(terms, name) // must have been declared when first read; declare lazily below
			}
		}
		all := true
		for _, t := range terms[1:] {
			if t != terms[0] {
				all = false
			}
		}
		if all {
			if _, ok := sts[0].heap[k]; ok || !sameEpoch {
				out.heap[k] = terms[0]
			}
			continue
		}
		srt := m.sortOfHeapKey(k)
		if m.lazies == nil {
			m.lazies = map[string]*lazyMerge{}
		}
		id := fmt.Sprintf("LAZY:%d", len(m.lazies))
		m.lazies[id] = &lazyMerge{conds: append([]string(nil), conds...), terms: terms, sort: srt, key: k}
		out.heap[k] = id
	}
	// allocation base survives a merge only if all incoming states share it
	if sts[0].abase != nil {
		same := true
		for _, s := range sts[1:] {
			if s.abase != sts[0].abase {
				same = false
			}
		}
		if same {
			out.abase = sts[0].abase
			out.anew = map[string]bool{}
			for _, s := range sts {
				for k := range s.anew {
					out.anew[k] = true
				}
			}
		}
	}
	// cnt
	acc := sts[len(sts)-1].cnt
	for i := len(sts) - 2; i >= 0; i-- {
		acc = Ite(conds[i], sts[i].cnt, acc)
	}
	if strings.HasPrefix(acc, "(ite") {
		n := m.ctx.Fresh("cnt", SInt)
		m.ctx.Assume(Eq(n, acc))
		acc = n
	}
	out.cnt = acc
	// ghost
	gk := map[string]bool{}
	for _, s := range sts {
		for k := range s.ghost {
			gk[k] = true
		}
	}
	for k := range gk {
		var vals []Val
		ok := true
		for _, s := range sts {
			v, has := s.ghost[k]
			if !has {
				ok = false
				break
			}
			vals = append(vals, v)
		}
		if !ok {
			continue
		}
		out.ghost[k] = m.iteVals(conds, vals)
	}
	return out
}

func (m *Model) iteVals(conds []string, vals []Val) Val {
	res := vals[len(vals)-1]
	res.C = append([]string(nil), res.C...)
	for i := len(vals) - 2; i >= 0; i-- {
		for j := range res.C {
			res.C[j] = Ite(conds[i], vals[i].C[j], res.C[j])
		}
		if vals[i].Cl != res.Cl {
			res.Cl = nil
		}
	}
	return res
}

var heapKeySorts = map[string]Sort{}

func (m *Model) sortOfHeapKey(k string) Sort {
	return heapKeySorts[k]
}

func (m *Model) regKeys(ks []HeapKey) []HeapKey {
	for _, k := range ks {
		heapKeySorts[k.Key] = k.Sort
		if k.Ref {
			refKeys[k.Key] = true
		}
	}
	return ks
}
