package main

// Map-iteration discipline (C08): Go randomises the order of `range` over a map. Every such loop in the
// module (and every use of maps.Keys / maps.Values) is one obligation: the loop must be discharged by
//
//   R1  commutative body: per iteration it only (i) stores into another map / a set under a key that is
//       the iteration key (possibly converted), (ii) adds to integer accumulators, and/or-folds booleans,
//       (iii) deletes by the iteration key, (iv) calls functions that are pure for this purpose (no writes
//       to module state, no clock / UUID / random sources), and has no exit (return / break) that depends
//       on the iteration;  or
//   R2  collect-then-sort: it only appends (values derived from the current key/value) to a slice that is
//       fresh in the function, and the first use of that slice after the loop is a sort by a total order
//       on its elements (sort.Strings, slices.Sort, slices.Sorted on basic-typed elements; a comparator
//       sort counts only with a declared justification that the key is unique);  or
//   R3  an explicit justification in the property configuration ("justified": {"<func>#<n>": reason}),
//       listed as an assumption in the evidence.
//
// A site that is none of these is reported; so is a site listed in R3 that no longer exists (stale).

import (
	"encoding/json"
	"fmt"
	"os"
	"go/token"
	"go/types"
	"sort"
	"strings"

	"golang.org/x/tools/go/ssa"
)

type mapOrderArgs struct {
	Justified      map[string]mapJust `json:"justified"`      // "<pkg>::<func>#<ordinal>" -> accepted residual problems + reason
	BenignKeys     []string          `json:"benign_keys"`     // heap keys whose writes are idempotent caches (lazy initialisation)
	SortJustified  map[string]string `json:"sort_justified"`  // same key -> why the comparator order is total on the collected elements
	PureCallees    []string          `json:"pure_callees"`    // extra callees (by shortKey prefix) treated as order-insensitive
	ExcludePkgs    []string          `json:"exclude_pkgs"`    // package path fragments not in scope (generated code, cmd tools)
	KnownUnordered []string          `json:"known_unordered"` // not used: findings go to known_findings.json
}

// mapJust: a declared justification covers exactly the listed residual problems of a site (by code); any
// other problem the analysis finds there is still reported
type mapJust struct {
	Accept []string `json:"accept"`
	Why    string   `json:"why"`
}

type mapSite struct {
	fn      *ssa.Function
	rng     *ssa.Range
	ordinal int
	pos     token.Position
	key     string
}

func isMapType(t types.Type) bool {
	_, ok := t.Underlying().(*types.Map)
	return ok
}

// loopOf: blocks of the natural loop whose header contains the Next of this range
func loopOfRange(fn *ssa.Function, rng *ssa.Range) (header *ssa.BasicBlock, blocks map[*ssa.BasicBlock]bool, next *ssa.Next) {
	if rng.Referrers() == nil {
		return nil, nil, nil
	}
	for _, r := range *rng.Referrers() {
		if n, ok := r.(*ssa.Next); ok {
			next = n
		}
	}
	if next == nil {
		return nil, nil, nil
	}
	header = next.Block()
	loops := computeLoops(fn)
	if li := loops[header]; li != nil {
		return header, li.blocks, next
	}
	// a loop that is left on every path (e.g. `for k := range m { return k }`) has no back edge
	return header, map[*ssa.BasicBlock]bool{header: true}, next
}

// derivedFromIter: value computed only from the current key/value (and loop-invariant values), not from
// loop-carried state
func derivedFromIter(v ssa.Value, blocks map[*ssa.BasicBlock]bool, header *ssa.BasicBlock, seen map[ssa.Value]bool) bool {
	if seen[v] {
		return true
	}
	seen[v] = true
	switch x := v.(type) {
	case *ssa.Const, *ssa.Global, *ssa.Function, *ssa.Parameter, *ssa.FreeVar, *ssa.Builtin:
		return true
	case *ssa.Phi:
		if x.Block() == header {
			return false // loop-carried
		}
	}
	in, ok := v.(ssa.Instruction)
	if !ok {
		return true
	}
	if !blocks[in.Block()] {
		return true // defined before the loop: invariant
	}
	var ops []*ssa.Value
	for _, op := range in.Operands(ops) {
		if op == nil || *op == nil {
			continue
		}
		if !derivedFromIter(*op, blocks, header, seen) {
			return false
		}
	}
	return true
}

func (v *Verifier) mapOrder(cfg PropConfig, sc StructuralCheck) []StructResult {
	var args mapOrderArgs
	if err := json.Unmarshal(sc.Args, &args); err != nil {
		engineErr("structural %s: %v", sc.Name, err)
	}
	fv := NewFuncVC(v, nil, nil, cfg.ID)
	var out []StructResult
	usedJ := map[string]bool{}
	mapOrderBenign = args.BenignKeys
	funcs := v.moduleFunctions(false)
	sort.Slice(funcs, func(i, j int) bool { return funcs[i].String() < funcs[j].String() })
	nSites, nR1, nR2, nR3 := 0, 0, 0, 0
	for _, fn := range funcs {
		p := pkgOf(fn)
		if p == nil {
			continue
		}
		skip := false
		for _, ex := range args.ExcludePkgs {
			if strings.Contains(p.Path(), ex) {
				skip = true
			}
		}
		if skip || fn.Synthetic != "" {
			continue
		}
		ord := 0
		for _, b := range fn.Blocks {
			for _, in := range b.Instrs {
				// maps.Keys / maps.Values / maps.All hand out the entries in map order: the sequence must go straight into slices.Sorted
				if call, ok := in.(*ssa.Call); ok {
					if sc := call.Common().StaticCallee(); sc != nil {
						full := sc.String()
						if o := sc.Origin(); o != nil {
							full = o.String()
						}
						if full == "maps.Keys" || full == "maps.Values" || full == "maps.All" || strings.HasPrefix(full, "golang.org/x/exp/maps.") {
							nSites++
							okUse := call.Referrers() != nil && len(*call.Referrers()) > 0
							for _, r := range *call.Referrers() {
								if _, isDbg := r.(*ssa.DebugRef); isDbg {
									continue
								}
								c2, isCall := r.(*ssa.Call)
								if !isCall || c2.Common().StaticCallee() == nil {
									okUse = false
									continue
								}
								n2 := c2.Common().StaticCallee().String()
								if o := c2.Common().StaticCallee().Origin(); o != nil {
									n2 = o.String()
								}
								if n2 != "slices.Sorted" {
									okUse = false
								}
							}
							nm := fmt.Sprintf("%s/structural/maporder[%s:%s]", cfg.ID, shortKey(fn), full)
							if okUse {
								nR2++
							}
							out = append(out, StructResult{Name: nm, Kind: "maporder", Text: "entries handed out by " + full + " in " + shortKey(fn) + " are sorted before use",
								Detail: map[bool]string{true: "the sequence goes straight into slices.Sorted", false: "the sequence is used without slices.Sorted"}[okUse], OK: okUse})
						}
					}
				}
				rng, ok := in.(*ssa.Range)
				if !ok || !isMapType(rng.X.Type()) {
					continue
				}
				ord++
				nSites++
				key := fmt.Sprintf("%s#%d", shortKey(fn), ord)
				name := fmt.Sprintf("%s/structural/maporder[%s]", cfg.ID, key)
				pos := v.prog.Fset.Position(rng.Pos())
				if pos.Line == 0 {
					// range instructions often carry no position: use the Next or the function
					pos = v.prog.Fset.Position(fn.Pos())
				}
				rule, why, problems := v.classifyMapRange(fv, fn, rng, key, &args)
				text := fmt.Sprintf("range over a map in %s (loop %d, %s): iteration order cannot reach the result", shortKey(fn), ord, pos)
				switch {
				case rule == "R1":
					nR1++
					out = append(out, StructResult{Name: name, Kind: "maporder", Text: text, Detail: "R1 commutative body: " + why, OK: true})
				case rule == "R2":
					nR2++
					out = append(out, StructResult{Name: name, Kind: "maporder", Text: text, Detail: "R2 collect then sort: " + why, OK: true})
				default:
					j, has := args.Justified[key]
					var rest []string
					for _, p := range problems {
						code := p
						if i := strings.Index(p, " "); i > 0 {
							code = p[:i]
						}
						acc := false
						for _, a := range j.Accept {
							if a == code {
								acc = true
							}
						}
						if !acc {
							rest = append(rest, p)
						}
					}
					if has && len(rest) == 0 {
						usedJ[key] = true
						nR3++
						out = append(out, StructResult{Name: name, Kind: "maporder", Text: text, Detail: "R3 declared justification (assumption): " + j.Why + " [residual problems: " + strings.Join(problems, " | ") + "]", OK: true})
					} else {
						if has {
							usedJ[key] = true
						}
						out = append(out, StructResult{Name: name, Kind: "maporder", Text: text, Detail: "not order-insensitive by R1/R2 and not covered by a justification: " + strings.Join(rest, " | "), OK: false})
					}
				}
			}
		}
	}
	// stale justifications
	var stale []string
	for k := range args.Justified {
		if !usedJ[k] {
			stale = append(stale, k)
		}
	}
	sort.Strings(stale)
	out = append(out, StructResult{Name: fmt.Sprintf("%s/structural/maporder[inventory]", cfg.ID), Kind: "maporder",
		Text:   "every map range in scope is classified; every declared justification refers to an existing site that needs it",
		Detail: fmt.Sprintf("%d map ranges: %d by R1, %d by R2, %d by declared justification; stale justifications: %s", nSites, nR1, nR2, nR3, strings.Join(stale, ", ")), OK: nSites > 0})
	return out
}

// classifyMapRange decides R1 / R2 for one loop; otherwise returns the list of residual problems, each
// starting with a stable code (kind:name) followed by an explanation.
func (v *Verifier) classifyMapRange(fv *FuncVC, fn *ssa.Function, rng *ssa.Range, key string, args *mapOrderArgs) (string, string, []string) {
	header, blocks, next := loopOfRange(fn, rng)
	if next == nil {
		return "R1", "the range is never advanced", nil
	}
	var appends []*ssa.Call // appends to accumulators in the loop
	var notes, problems []string
	bad := func(code string, format string, a ...interface{}) {
		problems = append(problems, code+" "+fmt.Sprintf(format, a...))
	}
	iterKey := func(val ssa.Value) bool {
		// the current key, possibly converted
		for {
			switch x := val.(type) {
			case *ssa.Extract:
				return x.Tuple == ssa.Value(next) && x.Index == 1
			case *ssa.ChangeType:
				val = x.X
			case *ssa.Convert:
				val = x.X
			case *ssa.MakeInterface:
				val = x.X
			default:
				return false
			}
		}
	}
	// uniqueGuard: the block only executes for the one element whose key equals a loop-invariant value
	var uniqueGuardKey func(b *ssa.BasicBlock) (bool, ssa.Value)
	uniqueGuard := func(b *ssa.BasicBlock) bool {
		ok, _ := uniqueGuardKey(b)
		return ok
	}
	uniqueGuardKey = func(b *ssa.BasicBlock) (bool, ssa.Value) {
		for d := b; d != nil && blocks[d]; d = d.Idom() {
			id := d.Idom()
			if id == nil || !blocks[id] {
				break
			}
			ifi, ok := lastInstr(id).(*ssa.If)
			if !ok {
				continue
			}
			bo, ok := ifi.Cond.(*ssa.BinOp)
			if !ok || (bo.Op != token.EQL && bo.Op != token.NEQ) {
				continue
			}
			succ := 0 // the edge on which key == invariant holds
			if bo.Op == token.NEQ {
				succ = 1
			}
			if id.Succs[succ] == d && len(d.Preds) == 1 {
				if iterKey(bo.X) && isLoopInvariant(bo.Y, blocks) {
					return true, bo.Y
				}
				if iterKey(bo.Y) && isLoopInvariant(bo.X, blocks) {
					return true, bo.X
				}
			}
		}
		return false, nil
	}
	varName := func(val ssa.Value) string {
		if p, ok := val.(*ssa.Phi); ok && p.Comment != "" {
			return p.Comment
		}
		if a, ok := val.(*ssa.Alloc); ok && a.Comment != "" {
			return a.Comment
		}
		return val.Name()
	}
	for _, b := range fn.Blocks {
		if !blocks[b] {
			continue
		}
		guarded := uniqueGuard(b)
		for _, in := range b.Instrs {
			switch x := in.(type) {
			case *ssa.Return:
				if guarded {
					notes = append(notes, "returns the element with a given key (at most one)")
					continue
				}
				inv := true
				for _, r := range x.Results {
					if !isLoopInvariant(r, blocks) {
						inv = false
					}
				}
				if !inv {
					bad("return", "returns from inside the loop with a value that depends on the current element: the first match in map order wins")
				} else {
					notes = append(notes, "early return of loop-invariant values")
				}
			case *ssa.Store:
				if guarded {
					notes = append(notes, "assignment for the element with a given key (at most one)")
					continue
				}
				root := rootOfAddr(x.Addr)
				if al, ok := root.(*ssa.Alloc); ok && blocks[al.Block()] {
					continue // object allocated in this iteration
				}
				if ia, ok := root.(*ssa.IndexAddr); ok {
					if freshSliceIn2(ia.X, blocks) {
						continue // element of a slice made in this iteration
					}
				}
				if al, ok := root.(*ssa.Alloc); ok && !blocks[al.Block()] {
					// a local variable (cell) or a field of an object this function allocated: an accumulator
					if isLoopInvariant(x.Val, blocks) {
						notes = append(notes, "sets a flag to a loop-invariant value")
						continue
					}
					if acc, kind := cellAccumulation(x, x.Addr); acc {
						if kind == "append" {
							if c, ok := x.Val.(*ssa.Call); ok {
								appends = append(appends, c)
							}
						}
						notes = append(notes, "accumulates into a local ("+kind+")")
						continue
					}
					bad("assign:"+varName(al), "assigns a value that depends on the current element to a variable that outlives the iteration: the last writer in map order wins")
					continue
				}
				bad("store", "stores to memory that exists before the loop (%s)", v.prog.Fset.Position(x.Pos()))
			case *ssa.MapUpdate:
				if guarded || iterKey(x.Key) {
					notes = append(notes, "stores under the iteration key")
					continue
				}
				if m, ok := x.Map.(ssa.Instruction); ok && blocks[m.Block()] {
					if _, isMake := x.Map.(*ssa.MakeMap); isMake {
						continue // a map made in this iteration
					}
				}
				if derivedFromIter(x.Key, blocks, header, map[ssa.Value]bool{}) && isConstLike(x.Value) {
					notes = append(notes, "adds to a set under a key computed from the element")
					continue
				}
				bad("mapstore", "stores into a map under a key that is not the iteration key (%s): when two elements produce the same key the last writer in map order wins", v.prog.Fset.Position(x.Pos()))
			case *ssa.Phi:
				if b != header {
					continue
				}
				ok, kind, app := commutativeAccumulator(x, blocks, uniqueGuardKey)
				if !ok {
					bad("carried:"+x.Comment, "loop-carried variable %q is updated by a non-commutative operation (%s)", x.Comment, kind)
					continue
				}
				appends = append(appends, app...)
				if kind != "" {
					notes = append(notes, fmt.Sprintf("%s: %s", x.Comment, kind))
				}
			case ssa.CallInstruction:
				cc := x.Common()
				if bi, ok := cc.Value.(*ssa.Builtin); ok {
					if bi.Name() == "delete" && !iterKey(cc.Args[1]) && !guarded {
						bad("delete", "delete with a key that is not the iteration key")
					}
					continue
				}
				if _, isDefer := in.(*ssa.Defer); isDefer {
					bad("defer", "defer inside the loop")
					continue
				}
				if guarded {
					continue
				}
				if ok, why := v.orderFreeCall(fv, fn, x, args); !ok {
					bad("call:"+calleeCode(cc), "calls %s inside the loop: %s", calleeName(cc), why)
				}
			}
		}
	}
	// exits other than the range running out
	for _, b := range fn.Blocks {
		if !blocks[b] || b == header {
			continue
		}
		for _, s := range b.Succs {
			if blocks[s] {
				continue
			}
			if _, isRet := lastInstr(b).(*ssa.Return); isRet {
				continue
			}
			if uniqueGuard(b) {
				notes = append(notes, "break at the element with a given key")
				continue
			}
			if usesIterAfter(next, blocks) {
				bad("break", "breaks out of the loop and the element reached is used afterwards: the first match in map order wins")
			} else {
				notes = append(notes, "break with only loop-invariant effects")
			}
		}
	}
	rule := "R1"
	for _, app := range appends {
		ok, why := v.sortedBeforeUse(fn, app, blocks, key, args)
		if !ok {
			bad("append", "appends to a slice in map order and it %s", why)
			continue
		}
		rule = "R2"
		notes = append(notes, why)
	}
	problems = uniq(problems)
	if len(problems) > 0 {
		return "", "", problems
	}
	if len(notes) == 0 {
		notes = append(notes, "no effect that outlives an iteration")
	}
	return rule, strings.Join(uniq(notes), "; "), nil
}

func calleeCode(cc *ssa.CallCommon) string {
	if cc.IsInvoke() {
		return types.TypeString(cc.Value.Type(), func(p *types.Package) string { return p.Name() }) + "." + cc.Method.Name()
	}
	if sc := cc.StaticCallee(); sc != nil {
		return strings.ReplaceAll(shortKey(sc), " ", "")
	}
	return "funcvalue"
}

// freshSliceIn2: the slice value was made inside the loop (per iteration)
func freshSliceIn2(val ssa.Value, blocks map[*ssa.BasicBlock]bool) bool {
	switch x := val.(type) {
	case *ssa.MakeSlice:
		return blocks[x.Block()]
	case *ssa.Slice:
		if al, ok := x.X.(*ssa.Alloc); ok {
			return blocks[al.Block()]
		}
	}
	return false
}

func lastInstr(b *ssa.BasicBlock) ssa.Instruction { return b.Instrs[len(b.Instrs)-1] }

func calleeName(cc *ssa.CallCommon) string {
	if cc.IsInvoke() {
		return types.TypeString(cc.Value.Type(), func(p *types.Package) string { return p.Name() }) + "." + cc.Method.Name()
	}
	if sc := cc.StaticCallee(); sc != nil {
		return sc.String()
	}
	return "a function value"
}

func isConstLike(v ssa.Value) bool {
	switch x := v.(type) {
	case *ssa.Const:
		return true
	case *ssa.Alloc:
		// struct{}{} values
		return true
	case *ssa.UnOp:
		if al, ok := x.X.(*ssa.Alloc); ok {
			if st, ok := al.Type().(*types.Pointer).Elem().Underlying().(*types.Struct); ok && st.NumFields() == 0 {
				return true
			}
		}
	}
	if st, ok := v.Type().Underlying().(*types.Struct); ok && st.NumFields() == 0 {
		return true
	}
	return false
}

func isLoopInvariant(v ssa.Value, blocks map[*ssa.BasicBlock]bool) bool {
	switch v.(type) {
	case *ssa.Const, *ssa.Global, *ssa.Function, *ssa.Parameter, *ssa.FreeVar:
		return true
	}
	in, ok := v.(ssa.Instruction)
	if !ok {
		return true
	}
	return !blocks[in.Block()]
}

// usesIterAfter: the tuple of Next (current key/value) or any value defined in the loop is used outside the loop
func usesIterAfter(next *ssa.Next, blocks map[*ssa.BasicBlock]bool) bool {
	fn := next.Parent()
	for b := range blocks {
		for _, in := range b.Instrs {
			val, ok := in.(ssa.Value)
			if !ok || val.Referrers() == nil {
				continue
			}
			for _, r := range *val.Referrers() {
				if !blocks[r.Block()] {
					// used after the loop: fine only for commutative accumulators, which are handled through phis;
					// here we flag uses of non-phi values
					if _, isPhi := val.(*ssa.Phi); isPhi {
						continue
					}
					_ = fn
					return true
				}
			}
		}
	}
	return false
}

// commutativeAccumulator: header phi x = phi(init, x op e) with op in {+, |, &, ||, &&, min, max, append}
// on every back edge (possibly x itself on paths that skip the update).
func commutativeAccumulator(phi *ssa.Phi, blocks map[*ssa.BasicBlock]bool, uniqueGuardKey func(*ssa.BasicBlock) (bool, ssa.Value)) (bool, string, []*ssa.Call) {
	guardKeys := map[string]bool{}
	uniqueGuard := func(b *ssa.BasicBlock) bool {
		ok, k := uniqueGuardKey(b)
		if ok {
			if c, isC := k.(*ssa.Const); isC {
				guardKeys["const:"+c.String()] = true
			} else {
				guardKeys[k.Name()] = true
			}
		}
		return ok
	}
	var apps []*ssa.Call
	kind := ""
	var check func(v ssa.Value, seen map[ssa.Value]bool) (bool, string)
	check = func(v ssa.Value, seen map[ssa.Value]bool) (bool, string) {
		if v == ssa.Value(phi) {
			return true, ""
		}
		if seen[v] {
			return true, ""
		}
		seen[v] = true
		in, isInstr := v.(ssa.Instruction)
		if !isInstr || !blocks[in.Block()] {
			// a value from outside the loop on a back edge: the accumulator is reset to an invariant
			return true, "reset to a loop-invariant value"
		}
		switch x := v.(type) {
		case *ssa.Phi:
			for i, e := range x.Edges {
				if i < len(x.Block().Preds) && uniqueGuard(x.Block().Preds[i]) {
					kind = "set at the element with a given key (at most one)"
					continue
				}
				if ok, k := check(e, seen); !ok {
					return false, k
				} else if k != "" {
					kind = k
				}
			}
			return true, kind
		case *ssa.BinOp:
			switch x.Op {
			case token.ADD, token.OR, token.AND, token.XOR, token.MUL, token.LOR, token.LAND:
				if b, ok := x.X.Type().Underlying().(*types.Basic); ok && b.Info()&types.IsString != 0 {
					return false, "string concatenation in map order"
				}
				if b, ok := x.X.Type().Underlying().(*types.Basic); ok && b.Info()&types.IsFloat != 0 && (x.Op == token.ADD || x.Op == token.MUL) {
					return false, "floating point accumulation is not associative"
				}
				// one side must lead back to the phi, the other must not depend on loop-carried state
				okX, _ := check(x.X, seen)
				okY, _ := check(x.Y, seen)
				if okX && okY {
					return true, "commutative " + x.Op.String()
				}
				return false, "operand of " + x.Op.String() + " depends on a non-commutative update"
			}
			return false, "operator " + x.Op.String()
		case *ssa.Call:
			if bi, ok := x.Call.Value.(*ssa.Builtin); ok {
				switch bi.Name() {
				case "append":
					if ok, k := check(x.Call.Args[0], seen); !ok {
						return false, k
					}
					apps = append(apps, x)
					return true, "append"
				case "min", "max":
					return true, "commutative " + bi.Name()
				}
			}
			return false, "updated by a call"
		case *ssa.UnOp:
			if x.Op == token.NOT {
				return false, "negation of loop-carried state"
			}
		}
		// any other value computed in the loop from the current element that replaces the accumulator: last writer wins
		return false, "overwritten with a value computed from the current element (last writer wins)"
	}
	for i, e := range phi.Edges {
		pred := phi.Block().Preds[i]
		if !blocks[pred] {
			continue // entry edge
		}
		if uniqueGuard(pred) {
			kind = "set at the element with a given key (at most one)"
			continue
		}
		if ok, k := check(e, map[ssa.Value]bool{}); !ok {
			return false, k, nil
		}
	}
	if len(guardKeys) > 1 {
		return false, "set at the elements with several different keys: whichever of them comes later in map order wins", nil
	}
	return true, kind, apps
}

// cellAccumulation: store *cell = f(*cell, e) with f commutative (for locals that live in cells)
func cellAccumulation(st *ssa.Store, cell ssa.Value) (bool, string) {
	loadsCell := func(v ssa.Value) bool {
		u, ok := v.(*ssa.UnOp)
		return ok && u.Op == token.MUL && sameAddr(u.X, cell)
	}
	switch x := st.Val.(type) {
	case *ssa.BinOp:
		switch x.Op {
		case token.ADD, token.OR, token.AND, token.LOR, token.LAND:
			if b, ok := x.X.Type().Underlying().(*types.Basic); ok && b.Info()&(types.IsString|types.IsFloat) != 0 {
				return false, ""
			}
			if loadsCell(x.X) || loadsCell(x.Y) {
				return true, "commutative " + x.Op.String()
			}
		}
	case *ssa.Call:
		if bi, ok := x.Call.Value.(*ssa.Builtin); ok && bi.Name() == "append" && loadsCell(x.Call.Args[0]) {
			return true, "append"
		}
	}
	return false, ""
}

// orderFreeCall: a call inside a map loop that cannot make the result depend on the order: the callee
// (all possible callees) writes no module state that exists before the call and draws on no clock / UUID /
// random source; appends and stores into objects created in the same iteration are fine.
func (v *Verifier) orderFreeCall(fv *FuncVC, fn *ssa.Function, ci ssa.CallInstruction, args *mapOrderArgs) (bool, string) {
	cc := ci.Common()
	name := calleeName(cc)
	for _, p := range args.PureCallees {
		if strings.HasPrefix(name, p) || strings.Contains(name, p) {
			return true, ""
		}
	}
	var callees []*ssa.Function
	switch {
	case cc.IsInvoke():
		for _, t := range v.Implementers(cc.Value.Type()) {
			if isTestType(t) {
				continue
			}
			if sel := v.prog.MethodSets.MethodSet(t).Lookup(cc.Method.Pkg(), cc.Method.Name()); sel != nil {
				if m := v.prog.MethodValue(sel); m != nil {
					callees = append(callees, m)
				}
			}
		}
		if len(callees) == 0 {
			// interface from a dependency (e.g. error.Error, fmt.Stringer): treat as a read
			return true, ""
		}
	case cc.StaticCallee() != nil:
		callees = []*ssa.Function{cc.StaticCallee()}
	default:
		if mc, ok := cc.Value.(*ssa.MakeClosure); ok {
			callees = []*ssa.Function{mc.Fn.(*ssa.Function)}
		} else {
			v.buildAddrTaken()
			callees = effIdx.addrTaken[sigKey(cc.Signature())]
			if len(callees) == 0 {
				return false, "function value with unknown targets"
			}
		}
	}
	for _, c := range callees {
		if ok, why := v.orderFreeFunc(fv, c, map[*ssa.Function]bool{}); !ok {
			return false, why
		}
	}
	return true, ""
}

var nondetSources = map[string]bool{
	"github.com/nyaruka/gocommon/uuids.NewV4": true, "github.com/nyaruka/gocommon/uuids.NewV7": true, "github.com/nyaruka/gocommon/dates.Now": true,
	"github.com/nyaruka/gocommon/random.Decimal": true, "github.com/nyaruka/gocommon/random.IntN": true, "time.Now": true,
}

var orderFreeCache = map[*ssa.Function]string{}
var mapOrderBenign []string

func (v *Verifier) orderFreeFunc(fv *FuncVC, f *ssa.Function, seen map[*ssa.Function]bool) (bool, string) {
	if r, ok := orderFreeCache[f]; ok {
		return r == "", r
	}
	if seen[f] {
		return true, ""
	}
	seen[f] = true
	res := func(why string) (bool, string) {
		orderFreeCache[f] = why
		return why == "", why
	}
	if nondetSources[f.String()] {
		return res(f.String() + " draws from a sequence (the n-th call gets the n-th value)")
	}
	p := pkgOf(f)
	if p == nil || !isModulePath(p.Path()) {
		// dependencies: allowed unless they are one of the sequence sources above; functions taking callbacks into the
		// module are followed through the callback arguments at the call site (not modelled: listed assumption)
		if len(f.Blocks) == 0 || true {
			return res("")
		}
	}
	ks, all := v.Effects(fv, f)
	if all {
		// unknown writes: look for sequence sources and module-state writes transitively by walking the body
	}
	for _, k := range ks {
		if strings.HasPrefix(k, "E$") || strings.HasPrefix(k, "C$") {
			// elements of slices / boxed values: what such callees fill are their own fresh results (assumption, listed)
			continue
		}
		benign := false
		for _, bk := range mapOrderBenign {
			if strings.Contains(k, bk) {
				benign = true
			}
		}
		if benign {
			continue
		}
		if isModuleKey(k) && !strings.HasPrefix(k, "G$") {
			// writes to module heap: acceptable only for objects the callee allocates itself; Effects already drops
			// writes to locally fresh objects, so what remains may exist before the call
			return res(fmt.Sprintf("%s may write %s", shortKey(f), k))
		}
	}
	// sequence sources reachable?
	for _, c := range v.calleesOf(f) {
		if c == f {
			continue
		}
		if ok, why := v.orderFreeFunc(fv, c, seen); !ok && strings.Contains(why, "draws from a sequence") {
			return res(why)
		}
	}
	return res("")
}

// sortedBeforeUse: the slice built by this append (through the loop phi) is, after the loop, first passed to a
// sort with a total order on its elements.
func (v *Verifier) sortedBeforeUse(fn *ssa.Function, app *ssa.Call, blocks map[*ssa.BasicBlock]bool, key string, args *mapOrderArgs) (bool, string) {
	// the slice variable after the loop: the header phi (or cell) fed by this append
	var roots []ssa.Value
	if app.Referrers() != nil {
		for _, r := range *app.Referrers() {
			switch x := r.(type) {
			case *ssa.Phi:
				roots = append(roots, x)
			case *ssa.Store:
				if al, ok := x.Addr.(*ssa.Alloc); ok {
					roots = append(roots, al)
				}
			}
		}
	}
	if len(roots) == 0 {
		return false, "the appended slice is not a simple local accumulator"
	}
	elemBasic := false
	if sl, ok := app.Type().Underlying().(*types.Slice); ok {
		if b, ok := sl.Elem().Underlying().(*types.Basic); ok && b.Info()&(types.IsString|types.IsInteger) != 0 {
			elemBasic = true
		}
	}
	// collect uses outside the loop of the phi closure
	closure := map[ssa.Value]bool{}
	sortClosures := map[ssa.Instruction]bool{}
	var work []ssa.Value
	work = append(work, roots...)
	for len(work) > 0 {
		x := work[len(work)-1]
		work = work[:len(work)-1]
		if closure[x] {
			continue
		}
		closure[x] = true
		if x.Referrers() == nil {
			continue
		}
		for _, r := range *x.Referrers() {
			switch y := r.(type) {
			case *ssa.Phi:
				work = append(work, y)
			case *ssa.UnOp:
				if _, isAl := x.(*ssa.Alloc); isAl {
					work = append(work, y) // load of the cell
				}
			case *ssa.MakeInterface:
				work = append(work, y) // boxed to be handed to sort.Slice
			case *ssa.ChangeType:
				work = append(work, y)
			case *ssa.MakeClosure:
				// a comparator closure capturing the variable: fine if the closure only goes to a sort call
				onlySort := y.Referrers() != nil
				if onlySort {
					for _, cr := range *y.Referrers() {
						if _, isDbg := cr.(*ssa.DebugRef); isDbg {
							continue
						}
						c, ok := cr.(ssa.CallInstruction)
						if !ok || c.Common().StaticCallee() == nil || !strings.HasPrefix(c.Common().StaticCallee().String(), "sort.") && !strings.HasPrefix(c.Common().StaticCallee().String(), "slices.Sort") {
							onlySort = false
						}
					}
				}
				if os.Getenv("GOCV_DEBUG") != "" {
					fmt.Fprintf(os.Stderr, "[debug] closure %s onlySort=%v refs=%v\n", y, onlySort, *y.Referrers())
				}
				if onlySort {
					sortClosures[y] = true
				}
			}
		}
	}
	type use struct {
		in  ssa.Instruction
		val ssa.Value
	}
	var uses []use
	for x := range closure {
		if x.Referrers() == nil {
			continue
		}
		for _, r := range *x.Referrers() {
			if blocks[r.Block()] {
				continue
			}
			if _, isPhi := r.(*ssa.Phi); isPhi {
				continue
			}
			if u, ok := r.(*ssa.UnOp); ok && closure[u] {
				continue
			}
			if _, isDbg := r.(*ssa.DebugRef); isDbg {
				continue
			}
			if sortClosures[r] {
				continue
			}
			if v2, ok := r.(ssa.Value); ok && closure[v2] {
				continue // wrapper (MakeInterface / ChangeType) followed above
			}
			if st, ok := r.(*ssa.Store); ok && closure[st.Addr] {
				continue // a definition of the variable, not a use
			}
			uses = append(uses, use{r, x})
		}
	}
	if len(uses) == 0 {
		return true, "the collected slice is not used after the loop"
	}
	// every use must be dominated by a sorting call on the slice (or be that call / len())
	var sorts []ssa.Instruction
	sortKind := ""
	for _, u := range uses {
		if c, ok := u.in.(ssa.CallInstruction); ok {
			if bi, ok := c.Common().Value.(*ssa.Builtin); ok && (bi.Name() == "len" || bi.Name() == "cap") {
				continue
			}
			if sc := c.Common().StaticCallee(); sc != nil {
				full := sc.String()
				if o := sc.Origin(); o != nil {
					full = o.String()
				}
				switch {
				case full == "sort.Strings" || full == "sort.Ints" || strings.HasPrefix(full, "slices.Sort") && !strings.Contains(full, "Func"):
					if elemBasic {
						sorts = append(sorts, u.in)
						sortKind = full + " on basic-typed elements (equal elements are indistinguishable)"
						continue
					}
				case full == "sort.Slice" || full == "sort.SliceStable" || full == "slices.SortFunc" || full == "slices.SortStableFunc" || full == "sort.Sort" || full == "sort.Stable":
					if why, ok := args.SortJustified[key]; ok {
						sorts = append(sorts, u.in)
						sortKind = full + " with a comparator; declared total on the collected elements (assumption): " + why
						continue
					}
					return false, "is sorted with a comparator (" + full + ") whose order is not known to be total on the collected elements"
				}
			}
		}
	}
	if len(sorts) == 0 {
		return false, "is used without being sorted first (" + v.prog.Fset.Position(uses[0].in.Pos()).String() + ")"
	}
	for _, u := range uses {
		isSort := false
		for _, s := range sorts {
			if s == u.in {
				isSort = true
			}
		}
		if isSort {
			continue
		}
		if c, ok := u.in.(ssa.CallInstruction); ok {
			if bi, ok := c.Common().Value.(*ssa.Builtin); ok && (bi.Name() == "len" || bi.Name() == "cap") {
				continue
			}
		}
		dom := false
		for _, s := range sorts {
			if s.Block() == u.in.Block() {
				for _, in := range s.Block().Instrs {
					if in == s {
						dom = true
						break
					}
					if in == u.in {
						break
					}
				}
			} else if s.Block().Dominates(u.in.Block()) {
				dom = true
			}
		}
		if !dom {
			return false, fmt.Sprintf("has a use that is not preceded by the sort (%s: %T %s)", v.prog.Fset.Position(u.in.Pos()), u.in, u.in)
		}
	}
	return true, "collected slice is sorted before use by " + sortKind
}

// sameAddr: two address values denote the same location (same cell, or the same field path of the same object)
func sameAddr(a, b ssa.Value) bool {
	if a == b {
		return true
	}
	fa, ok1 := a.(*ssa.FieldAddr)
	fb, ok2 := b.(*ssa.FieldAddr)
	if ok1 && ok2 {
		return fa.Field == fb.Field && sameAddr(fa.X, fb.X)
	}
	return false
}
