package main

// Counterexample replay against the real code (go test -overlay; nothing is written to /repo).

import (
	"bytes"
	"context"
	"encoding/json"
	"fmt"
	"os"
	"os/exec"
	"path/filepath"
	"strings"
	"time"
)

type ReplayAdapter struct {
	Match string `json:"match"` // substring of the obligation name
	Pkg   string `json:"pkg"`   // package dir relative to the repo, e.g. "contactql"
	File  string `json:"file"`  // adapter test file relative to /verif
	Test  string `json:"test"`  // test function
}

func tryReplay(verif, repo string, overlay map[string][]byte, cfg *PropConfig, o *Obligation, rec map[string]interface{}) (bool, string) {
	var ad *ReplayAdapter
	for i := range cfg.Replay {
		if strings.Contains(o.Name, cfg.Replay[i].Match) {
			ad = &cfg.Replay[i]
			break
		}
	}
	if ad == nil {
		return false, "no replay adapter for this obligation"
	}
	work := filepath.Join(verif, "work", "replaytmp", cfg.ID, fmt.Sprintf("%x", hashString(o.Name)))
	os.MkdirAll(work, 0o755)
	defer os.RemoveAll(work)
	// the replay record so far is the adapter's input
	in := map[string]interface{}{"obligation": o.Name, "inputs": rec["inputs"], "clause": o.Text}
	d, _ := json.Marshal(in)
	inFile := filepath.Join(work, "input.json")
	os.WriteFile(inFile, d, 0o644)
	repl := map[string]string{}
	for path, content := range overlay {
		f := filepath.Join(work, fmt.Sprintf("ov%x.go", hashString(path)))
		os.WriteFile(f, content, 0o644)
		repl[path] = f
	}
	repl[filepath.Join(repo, ad.Pkg, "zz_gocv_replay_test.go")] = filepath.Join(verif, ad.File)
	ov, _ := json.Marshal(map[string]interface{}{"Replace": repl})
	ovFile := filepath.Join(work, "overlay.json")
	os.WriteFile(ovFile, ov, 0o644)
	ctx, cancel := context.WithTimeout(context.Background(), 120*time.Second)
	defer cancel()
	cmd := exec.CommandContext(ctx, "go", "test", "-overlay", ovFile, "-vet=off", "-count=1", "-v", "-timeout", "60s", "-run", "^"+ad.Test+"$", "./"+ad.Pkg)
	cmd.Dir = repo
	cmd.Env = append(os.Environ(), "GOCV_REPLAY="+inFile, "GOCV_REPLAY_OBLIGATION="+o.Name, "GOFLAGS=-mod=mod", "GOPROXY=off", "GOSUMDB=off", "GOTOOLCHAIN=local")
	var out bytes.Buffer
	cmd.Stdout = &out
	cmd.Stderr = &out
	cmd.Run()
	s := out.String()
	for _, ln := range strings.Split(s, "\n") {
		if strings.HasPrefix(ln, "REPLAY: reproduced") {
			return true, strings.TrimPrefix(ln, "REPLAY: ")
		}
	}
	if strings.Contains(s, "panic:") {
		// the real code panicked while the adapter drove it with the counterexample
		idx := strings.Index(s, "panic:")
		return true, "reproduced: real code panicked: " + truncate(s[idx:], 300)
	}
	if strings.Contains(s, "REPLAY: not-reproduced") {
		return false, "adapter ran the real code on the counterexample region; clause held at run time"
	}
	return false, "adapter did not run: " + truncate(s, 400)
}
