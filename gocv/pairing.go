package main

// Run/step pairing (C01, clause "every event a run records names (when it names one) a step of that run"):
// events get their step in run.LogEvent(step, e) - called by failRun and by the logEvent closures of the
// engine. For every such call the step value must be, by construction, a step of the very run value the
// event is logged to:
//   * nil, or
//   * the result of CreateStep / PathLocation called on that same run value, or
//   * the step result of a function proved (by this same rule, at each of its returns) to return a step of
//     the run it was given, called with that same run value, or
//   * phis that merge such pairs edge by edge (the run and the step variable change together), or
//   * a (run, step) pair of parameters / captured variables of the function - then the obligation moves to
//     every call site / closure creation site of that function.
// A stale step variable kept across a switch of the current run fails the rule.

import (
	"encoding/json"
	"fmt"
	"go/types"
	"sort"
	"strings"

	"golang.org/x/tools/go/ssa"
)

type pairArgs struct {
	Sinks     []string `json:"sinks"`     // "<func key>:<run arg index>:<step arg index>" (receiver is index 0 for methods)
	Producers []string `json:"producers"` // method names on the run that return one of its steps: "CreateStep:0", "PathLocation:0" (result index)
}

type pairReq struct {
	fn      *ssa.Function
	runIdx  int // index into params (>= 0) or into free vars (-1 - k)
	stepIdx int
}

type pairing struct {
	v         *Verifier
	producers map[string]int
	reqs      []pairReq
	reqSeen   map[string]bool
	retPair   map[*ssa.Function]map[[2]int]bool // function -> (param idx, result idx) proved "result is a step of param"
	problems  []string
	nSinks    int
}

func stripRun(v ssa.Value) ssa.Value {
	for {
		switch x := v.(type) {
		case *ssa.ChangeInterface:
			v = x.X
		case *ssa.MakeInterface:
			v = x.X
		case *ssa.ChangeType:
			v = x.X
		case *ssa.TypeAssert:
			v = x.X
		case *ssa.UnOp:
			// load of a local that lives in a cell and is assigned exactly once
			if al, ok := x.X.(*ssa.Alloc); ok {
				if sv := cellValue(al); sv != ssa.Value(al) {
					v = sv
					continue
				}
			}
			return v
		case *ssa.Alloc:
			if sv := cellValue(x); sv != ssa.Value(x) {
				v = sv
				continue
			}
			return v
		default:
			return v
		}
	}
}

func sameRun(a, b ssa.Value) bool { return stripRun(a) == stripRun(b) }


func (p *pairing) varIndex(fn *ssa.Function, v ssa.Value) (int, bool) {
	v = stripRun(v)
	for i, q := range fn.Params {
		if ssa.Value(q) == v {
			return i, true
		}
	}
	for i, q := range fn.FreeVars {
		if ssa.Value(q) == v {
			return -1 - i, true
		}
	}
	// a load of a captured cell that is never stored to in this function
	if u, ok := v.(*ssa.UnOp); ok {
		if fvr, ok := u.X.(*ssa.FreeVar); ok {
			for i, q := range fn.FreeVars {
				if q == fvr {
					return -1 - i, true
				}
			}
		}
	}
	return 0, false
}

// ok: S is a step of R by construction (see the file comment); assume holds for pairs already being checked (coinduction over phis)
func (p *pairing) ok(fn *ssa.Function, R, S ssa.Value, seen map[[2]ssa.Value]bool, why *string) bool {
	S = stripRun(S)
	if isNilConst(S) {
		return true
	}
	key := [2]ssa.Value{R, S}
	if seen[key] {
		return true
	}
	seen[key] = true
	switch s := S.(type) {
	case *ssa.Call:
		cc := s.Common()
		if cc.IsInvoke() {
			if _, isProd := p.producers[cc.Method.Name()+":0"]; isProd || p.producers[cc.Method.Name()] == 0 && hasKey(p.producers, cc.Method.Name()) {
				if sameRun(cc.Value, R) {
					return true
				}
				*why = "the step comes from " + cc.Method.Name() + " of a different run value"
				return false
			}
		}
		if sc := cc.StaticCallee(); sc != nil {
			if idx, isProd := p.producers[sc.Name()]; isProd && idx == 0 && len(cc.Args) > 0 && sameRun(cc.Args[0], R) {
				return true
			}
		}
	case *ssa.Extract:
		if call, ok := s.Tuple.(*ssa.Call); ok {
			cc := call.Common()
			if cc.IsInvoke() {
				if idx, isProd := p.producers[cc.Method.Name()]; isProd && idx == s.Index {
					if sameRun(cc.Value, R) {
						return true
					}
					*why = "the step comes from " + cc.Method.Name() + " of a different run value"
					return false
				}
			}
			if sc := cc.StaticCallee(); sc != nil {
				if idx, isProd := p.producers[sc.Name()]; isProd && idx == s.Index && len(cc.Args) > 0 && sameRun(cc.Args[0], R) {
					return true
				}
				// a function that returns a step of the run it is given
				for pi, a := range cc.Args {
					if sameRun(a, R) && p.returnsStepOf(sc, pi, s.Index) {
						return true
					}
				}
			}
		}
	case *ssa.Phi:
		r, isPhi := stripRun(R).(*ssa.Phi)
		if isPhi && r.Block() == s.Block() {
			for i := range s.Edges {
				if !p.ok(fn, r.Edges[i], s.Edges[i], seen, why) {
					if *why == "" {
						*why = fmt.Sprintf("on the edge from block %d the run variable %q and the step variable %q are not updated together", s.Block().Preds[i].Index, r.Comment, s.Comment)
					}
					return false
				}
			}
			return true
		}
		// the run is the same on every edge
		for i := range s.Edges {
			if !p.ok(fn, R, s.Edges[i], seen, why) {
				return false
			}
		}
		return true
	}
	// a pair of parameters / captured variables: the obligation moves to the callers
	if ri, okR := p.varIndex(fn, R); okR {
		if si, okS := p.varIndex(fn, S); okS {
			p.require(fn, ri, si)
			return true
		}
	}
	if *why == "" {
		*why = "the step value is not derived from the run value the event is logged to"
	}
	return false
}

func hasKey(m map[string]int, k string) bool { _, ok := m[k]; return ok }

func (p *pairing) require(fn *ssa.Function, ri, si int) {
	k := fmt.Sprintf("%p:%d:%d", fn, ri, si)
	if p.reqSeen[k] {
		return
	}
	p.reqSeen[k] = true
	p.reqs = append(p.reqs, pairReq{fn, ri, si})
}

// returnsStepOf: every return of f hands back, as result ri, a step of its parameter pi (by the same rule)
func (p *pairing) returnsStepOf(f *ssa.Function, pi, ri int) bool {
	if len(f.Blocks) == 0 || pi >= len(f.Params) {
		return false
	}
	if m := p.retPair[f]; m != nil {
		if v, ok := m[[2]int{pi, ri}]; ok {
			return v
		}
	} else {
		p.retPair[f] = map[[2]int]bool{}
	}
	p.retPair[f][[2]int{pi, ri}] = true // coinductive
	res := true
	for _, b := range f.Blocks {
		ret, ok := b.Instrs[len(b.Instrs)-1].(*ssa.Return)
		if !ok || ri >= len(ret.Results) {
			continue
		}
		why := ""
		if !p.ok(f, f.Params[pi], ret.Results[ri], map[[2]ssa.Value]bool{}, &why) {
			res = false
		}
	}
	p.retPair[f][[2]int{pi, ri}] = res
	return res
}

func (v *Verifier) stepRunPairing(cfg PropConfig, sc StructuralCheck) []StructResult {
	var a pairArgs
	if err := json.Unmarshal(sc.Args, &a); err != nil {
		engineErr("structural %s: %v", sc.Name, err)
	}
	p := &pairing{v: v, producers: map[string]int{}, reqSeen: map[string]bool{}, retPair: map[*ssa.Function]map[[2]int]bool{}}
	for _, pr := range a.Producers {
		parts := strings.Split(pr, ":")
		idx := 0
		if len(parts) > 1 {
			fmt.Sscanf(parts[1], "%d", &idx)
		}
		p.producers[parts[0]] = idx
	}
	type sink struct {
		fn             *ssa.Function
		runIdx, stepIdx int
	}
	var sinks []sink
	for _, s := range a.Sinks {
		parts := strings.Split(s, ":")
		key := strings.Join(parts[:len(parts)-2], ":")
		fn := v.funcsByKey[modulePath+"/"+key]
		if fn == nil {
			engineErr("structural %s: function %s not found in /repo (renamed or removed?)", sc.Name, key)
		}
		sk := sink{fn: fn}
		fmt.Sscanf(parts[len(parts)-2], "%d", &sk.runIdx)
		fmt.Sscanf(parts[len(parts)-1], "%d", &sk.stepIdx)
		sinks = append(sinks, sk)
		// the sink itself: its own (run, step) parameters are what the rule is about
	}
	var out []StructResult
	funcs := v.moduleFunctions(false)
	sort.Slice(funcs, func(i, j int) bool { return funcs[i].String() < funcs[j].String() })
	report := func(fn *ssa.Function, ord int, what string, okV bool, why string) {
		name := fmt.Sprintf("%s/structural/step_run_pairing[%s#%d]", cfg.ID, shortKey(fn), ord)
		text := fmt.Sprintf("%s in %s: the step is a step of the run the event is logged to", what, shortKey(fn))
		out = append(out, StructResult{Name: name, Kind: "pairing", Text: text, Detail: why, OK: okV})
	}
	// actual arguments of a call: receiver first for invokes
	actuals := func(cc *ssa.CallCommon) []ssa.Value {
		if cc.IsInvoke() {
			return append([]ssa.Value{cc.Value}, cc.Args...)
		}
		return cc.Args
	}
	isSinkCall := func(cc *ssa.CallCommon) *sink {
		for i := range sinks {
			s := &sinks[i]
			if sc := cc.StaticCallee(); sc != nil && sc == s.fn {
				return s
			}
			if cc.IsInvoke() && s.fn.Signature.Recv() != nil && cc.Method.Name() == s.fn.Name() {
				if it, ok := cc.Value.Type().Underlying().(*types.Interface); ok && types.Implements(s.fn.Signature.Recv().Type(), it) {
					return s
				}
			}
		}
		return nil
	}
	ordOf := map[*ssa.Function]int{}
	for _, fn := range funcs {
		if fn.Synthetic != "" {
			continue
		}
		for _, b := range fn.Blocks {
			for _, in := range b.Instrs {
				ci, ok := in.(ssa.CallInstruction)
				if !ok {
					continue
				}
				s := isSinkCall(ci.Common())
				if s == nil {
					continue
				}
				p.nSinks++
				ordOf[fn]++
				act := actuals(ci.Common())
				why := ""
				okV := p.ok(fn, act[s.runIdx], act[s.stepIdx], map[[2]ssa.Value]bool{}, &why)
				if okV {
					why = "step derived from the run value (or nil, or a parameter pair checked at the callers)"
				}
				report(fn, ordOf[fn], fmt.Sprintf("call of %s at %s", s.fn.Name(), v.prog.Fset.Position(in.Pos())), okV, why)
			}
		}
	}
	// propagate parameter-pair requirements to callers / closure creation sites
	for i := 0; i < len(p.reqs); i++ {
		rq := p.reqs[i]
		isSinkFn := false
		for _, s := range sinks {
			if s.fn == rq.fn {
				isSinkFn = true
			}
		}
		if isSinkFn {
			continue
		}
		found := 0
		for _, fn := range funcs {
			for _, b := range fn.Blocks {
				for _, in := range b.Instrs {
					switch x := in.(type) {
					case *ssa.MakeClosure:
						if x.Fn != ssa.Value(rq.fn) || rq.runIdx >= 0 || rq.stepIdx >= 0 {
							continue
						}
						found++
						ordOf[fn]++
						R, S := x.Bindings[-1-rq.runIdx], x.Bindings[-1-rq.stepIdx]
						// bindings of by-reference captures are cells: use the value stored into the cell
						R, S = cellValue(R), cellValue(S)
						why := ""
						okV := p.ok(fn, R, S, map[[2]ssa.Value]bool{}, &why)
						if okV {
							why = "captured step derived from the captured run"
						}
						report(fn, ordOf[fn], fmt.Sprintf("closure %s created at %s", rq.fn.Name(), v.prog.Fset.Position(in.Pos())), okV, why)
					case ssa.CallInstruction:
						cc := x.Common()
						if cc.StaticCallee() != rq.fn || rq.runIdx < 0 || rq.stepIdx < 0 {
							continue
						}
						found++
						ordOf[fn]++
						why := ""
						okV := p.ok(fn, cc.Args[rq.runIdx], cc.Args[rq.stepIdx], map[[2]ssa.Value]bool{}, &why)
						if okV {
							why = "step argument derived from the run argument"
						}
						report(fn, ordOf[fn], fmt.Sprintf("call of %s at %s", rq.fn.Name(), v.prog.Fset.Position(in.Pos())), okV, why)
					}
				}
			}
		}
		if found == 0 && rq.fn.Parent() == nil {
			// exported entry point with a (run, step) pair and no caller in the module: nothing to check here
		}
	}
	out = append(out, StructResult{Name: fmt.Sprintf("%s/structural/step_run_pairing[inventory]", cfg.ID), Kind: "pairing", Text: "sites where an event is given its step were found",
		Detail: fmt.Sprintf("%d sink calls, %d parameter-pair requirements propagated", p.nSinks, len(p.reqs)), OK: p.nSinks > 0})
	return out
}

// cellValue: for a cell (Alloc) with exactly one store, the stored value
func cellValue(v ssa.Value) ssa.Value {
	al, ok := v.(*ssa.Alloc)
	if !ok || al.Referrers() == nil {
		return v
	}
	var stored ssa.Value
	n := 0
	for _, r := range *al.Referrers() {
		if st, ok := r.(*ssa.Store); ok && st.Addr == ssa.Value(al) {
			n++
			stored = st.Val
		}
	}
	if n == 1 {
		return stored
	}
	return v
}
