package main

// Symbolic execution of loop-cut SSA; generates obligations.

import (
	"fmt"
	"go/constant"
	"go/token"
	"go/types"
	"os"
	"sort"
	"strings"

	"golang.org/x/tools/go/ssa"
)

type AddrKind int

const (
	AField AddrKind = iota
	ACell
	AElem
	AStruct
)

type Addr struct {
	Kind    AddrKind
	Base    string     // struct pointer (AField/AStruct) or cell ref (ACell)
	StructT types.Type // AField
	Field   int
	T       types.Type // pointee type
	Arr     string     // AElem
	Idx     string
}

type EngineError struct{ Msg string }

func (e *EngineError) Error() string { return e.Msg }

// coverReturns (GOCV_COVER_RETURNS=1): one reachability cover per return point, reported as notes (vacuity self-test)
var coverReturns = os.Getenv("GOCV_COVER_RETURNS") != ""

func engineErr(format string, args ...interface{}) {
	panic(&EngineError{fmt.Sprintf(format, args...)})
}

type FuncVC struct {
	v       *Verifier
	ctx     *Ctx
	m       *Model
	fn      *ssa.Function
	con     *Contract
	prop    string
	obls    []*Obligation
	addrs   map[string]*Addr
	entry   *State
	nopanic bool
	stack   []*ssa.Function
	// notes for evidence
	inlined         map[string]bool
	havoced         map[string]bool
	assumed         map[string]bool
	devirt          map[string]bool
	specMode        int // >0: evaluating Go code inside a spec expression: no obligations
	axiomsOn        bool
	topFrame        *Frame
	maxInlineInstrs int
	maxInlineDepth  int
	nameOverride    string
	retReach        []string
	uses            []string
	probes          []Probe
	typeByID        map[string]types.Type
	revealed        []string
	footprints      map[string][]HeapKey
	appNames        map[string]string
	aliases         map[string]string // contract name -> local variable standing in for it (see verifyWithAliases)
	pureTuples      map[string]*pureTuple
	pureTupleOrder  []string
	sweepMode       bool
	letOldCache     map[string]Val
	immuneCells     []immuneCell
	axiomStates     map[string]*State // heap versions spec functions were applied to
	axiomStateOrder []string
	cbAt            *ssa.BasicBlock
	sideStack       [][]string
	forallStack     []bool
	closureDone     map[string]bool
	loopRemap       map[int]int // code loop ordinal -> contract loop ordinal (retry after a shift)
	inlineLoopHelpers bool // retry of a sweep function: contract-less helpers with loops are inlined (their loops cut without invariant)
	helperLoops     map[string]int // "<callee key>#<loop ordinal>" -> contract loop ordinal of the function under verification (a loop extracted into an inlined helper)
	nRetCover       int
	pureEnsDepth    int
	binderDepth     int // >0 while evaluating under a quantifier: no facts may be emitted (they would mention bound variables)
}

type edge struct{ from, to int }

type retInfo struct {
	cond string
	vals []Val
	st   *State
}

type loopInfo struct {
	header  *ssa.BasicBlock
	blocks  map[*ssa.BasicBlock]bool
	ordinal int
	spec    *LoopSpec
	dec0    string
	phiVals map[*ssa.Phi]Val
}

type dbgEntry struct {
	name   string
	val    ssa.Value
	isAddr bool
}

type Frame struct {
	fn           *ssa.Function
	vals         map[ssa.Value]Val
	depth        int
	top          bool
	rets         []retInfo
	loops        map[*ssa.BasicBlock]*loopInfo
	edgeCond     map[edge]string
	edgeState    map[edge]*State
	reach        map[*ssa.BasicBlock]string
	dbg          map[*ssa.BasicBlock][]dbgEntry
	curBlock     *ssa.BasicBlock
	con          *Contract
	entrySt      *State
	guard        string
	cbSpecs      map[string]*CallbackSpec
	rangeSt      map[ssa.Value]*rangeState
	extraNames   map[string]Val
	extraEnsures []Clause
}

type rangeState struct {
	isMap bool
	mt    *types.Map
	m     string // map ref
	str   string
	last  string // last string index
}

func NewFuncVC(v *Verifier, fn *ssa.Function, con *Contract, prop string) *FuncVC {
	ctx := NewCtx()
	fv := &FuncVC{v: v, ctx: ctx, m: NewModel(ctx), fn: fn, con: con, prop: prop, addrs: map[string]*Addr{},
		inlined: map[string]bool{}, havoced: map[string]bool{}, assumed: map[string]bool{}, devirt: map[string]bool{}, maxInlineInstrs: 60, maxInlineDepth: 4}
	if con != nil {
		fv.nopanic = con.NoPanic
		fv.revealed = con.Reveal
	}
	return fv
}

func (fv *FuncVC) pos(p token.Pos) string {
	if !p.IsValid() {
		return ""
	}
	ps := fv.v.prog.Fset.Position(p)
	f := ps.Filename
	if strings.HasPrefix(f, fv.v.repoDir+"/") {
		f = f[len(fv.v.repoDir)+1:]
	}
	return fmt.Sprintf("%s:%d", f, ps.Line)
}

func (fv *FuncVC) oblige(kind, label, reach, cond, text, pos string) {
	if fv.specMode > 0 {
		return
	}
	if cond == "true" {
		// trivially true, still count it as discharged by construction
	}
	name := fmt.Sprintf("%s/%s/%s", fv.prop, fv.funcName(), kind)
	if label != "" {
		name += "[" + label + "]"
	}
	// disambiguate
	n := 0
	for _, o := range fv.obls {
		if o.Name == name || strings.HasPrefix(o.Name, name+"#") {
			n++
		}
	}
	if n > 0 {
		name = fmt.Sprintf("%s#%d", name, n+1)
	}
	fv.obls = append(fv.obls, &Obligation{Name: name, Kind: kind, Func: fv.funcName(), Label: label, Pos: pos,
		NFacts: len(fv.ctx.facts), Goal: Implies(reach, cond), Text: text, ctx: fv.ctx})
}

func (fv *FuncVC) funcName() string {
	if fv.nameOverride != "" {
		return fv.nameOverride
	}
	return shortFuncName(fv.fn)
}

func (fv *FuncVC) cover(label, reach, text, pos string) {
	name := fmt.Sprintf("%s/%s/cover[%s]", fv.prop, fv.funcName(), label)
	fv.obls = append(fv.obls, &Obligation{Name: name, Kind: "cover", Func: fv.funcName(), Label: label, Pos: pos,
		NFacts: len(fv.ctx.facts), Goal: reach, Cover: true, Text: text, ctx: fv.ctx})
}

func shortFuncName(fn *ssa.Function) string {
	k := funcKey(fn)
	k = strings.TrimPrefix(k, modulePath+"/")
	return strings.Replace(k, "::", ".", 1)
}

// ---- values

func (fv *FuncVC) constVal(c *ssa.Const) Val {
	t := c.Type()
	if c.Value == nil {
		return fv.m.Zero(t)
	}
	cs := fv.m.Flatten(t)
	if len(cs) != 1 {
		engineErr("constant of composite type %v", t)
	}
	switch cs[0].Kind {
	case "bool":
		if constant.BoolVal(c.Value) {
			return Val{T: t, C: []string{"true"}}
		}
		return Val{T: t, C: []string{"false"}}
	case "str":
		return Val{T: t, C: []string{fv.ctx.StrLit(constant.StringVal(c.Value))}}
	case "int", "uint", "mathint":
		s := c.Value.ExactString()
		if v, ok := constant.Int64Val(constant.ToInt(c.Value)); ok {
			return Val{T: t, C: []string{IntLit(v)}}
		}
		if strings.HasPrefix(s, "-") {
			return Val{T: t, C: []string{"(- " + s[1:] + ")"}}
		}
		return Val{T: t, C: []string{s}}
	case "real":
		f, _ := constant.Float64Val(c.Value)
		s := fmt.Sprintf("%f", f)
		if f < 0 {
			s = fmt.Sprintf("(- %f)", -f)
		}
		return Val{T: t, C: []string{s}}
	}
	return Val{T: t, C: []string{fv.ctx.Fresh("const", cs[0].Sort)}}
}

func (fv *FuncVC) funcRef(fn *ssa.Function) string {
	k := funcKey(fn)
	if k == "" {
		k = fn.String()
	}
	return IntLit(int64(2000000 + fv.ctx.TypeID("func:"+k)))
}

func (fv *FuncVC) get(fr *Frame, v ssa.Value) Val {
	switch x := v.(type) {
	case *ssa.Const:
		return fv.constVal(x)
	case *ssa.Function:
		return Val{T: x.Type(), C: []string{fv.funcRef(x)}, Cl: &Closure{Fn: x}}
	case *ssa.Global:
		name := "glob$" + sanitize(x.Pkg.Pkg.Path()+"."+x.Name())
		fv.ctx.Const(name, SInt)
		pt := x.Type().(*types.Pointer).Elem()
		if _, ok := fv.addrs[name]; !ok {
			if isStructLike(pt) {
				fv.addrs[name] = &Addr{Kind: AStruct, Base: name, T: pt}
			} else {
				fv.addrs[name] = &Addr{Kind: ACell, Base: name, T: pt}
			}
			fv.ctx.Assume(fmt.Sprintf("(> %s 0)", name))
			if mt, ok := pt.Underlying().(*types.Map); ok {
				fv.globalMapFacts(x, name, mt)
			} else if !isStructLike(pt) {
				fv.globalConstFact(x, name, pt)
			}
		}
		return Val{T: x.Type(), C: []string{name}}
	case *ssa.Builtin:
		return Val{T: x.Type(), C: []string{"0"}}
	}
	val, ok := fr.vals[v]
	if !ok {
		engineErr("%s: value %s (%T) not computed (unsupported control flow?)", shortFuncName(fr.fn), v.Name(), v)
	}
	return val
}

func isStructLike(t types.Type) bool {
	if t == nil || isTime(t) || isDecimal(t) {
		return false
	}
	_, ok := t.Underlying().(*types.Struct)
	return ok
}

// ---- memory

func (fv *FuncVC) fldTerm(structT types.Type, field int, base string) string {
	st := structT.Underlying().(*types.Struct)
	name := fmt.Sprintf("fld$%s$%s", fv.m.TypeKey(structT), st.Field(field).Name())
	if !fv.ctx.declared[name] {
		fv.ctx.Decl(name, []Sort{SInt}, SInt)
		inv := "un" + name
		fv.ctx.Decl(inv, []Sort{SInt}, SInt)
		fv.ctx.axioms = append(fv.ctx.axioms, fmt.Sprintf("(forall ((x Int)) (! (= (%s (%s x)) x) :pattern ((%s x))))", inv, name, name))
		fv.ctx.axioms = append(fv.ctx.axioms, fmt.Sprintf("(forall ((x Int)) (! (=> (> x 0) (> (%s x) 0)) :pattern ((%s x))))", name, name))
	}
	return App(name, base)
}

func (fv *FuncVC) addrOf(ptr string, pointee types.Type) *Addr {
	if a, ok := fv.addrs[ptr]; ok {
		return a
	}
	if isStructLike(pointee) {
		return &Addr{Kind: AStruct, Base: ptr, T: pointee}
	}
	return &Addr{Kind: ACell, Base: ptr, T: pointee}
}

func (fv *FuncVC) loadStruct(st *State, base string, t types.Type) Val {
	s := t.Underlying().(*types.Struct)
	var cs []string
	for i := 0; i < s.NumFields(); i++ {
		ft := s.Field(i).Type()
		if isStructLike(ft) {
			cs = append(cs, fv.loadStruct(st, fv.fldTerm(t, i, base), ft).C...)
		} else {
			for _, k := range fv.m.FieldKeys(t, i) {
				cs = append(cs, fv.m.Sel(fv.m.heapGet(st, k), base))
			}
		}
	}
	return Val{T: t, C: cs}
}

func (fv *FuncVC) storeStruct(st *State, base string, t types.Type, v Val) {
	s := t.Underlying().(*types.Struct)
	off := 0
	for i := 0; i < s.NumFields(); i++ {
		ft := s.Field(i).Type()
		n := len(fv.m.Flatten(ft))
		sub := Val{T: ft, C: v.C[off : off+n]}
		if isStructLike(ft) {
			fv.storeStruct(st, fv.fldTerm(t, i, base), ft, sub)
		} else {
			for j, k := range fv.m.FieldKeys(t, i) {
				fv.m.heapStore(st, k, base, sub.C[j])
			}
		}
		off += n
	}
}

func (fv *FuncVC) load(st *State, a *Addr) Val {
	switch a.Kind {
	case AStruct:
		return fv.loadStruct(st, a.Base, a.T)
	case AField:
		ft := a.StructT.Underlying().(*types.Struct).Field(a.Field).Type()
		if isStructLike(ft) {
			return fv.loadStruct(st, fv.fldTerm(a.StructT, a.Field, a.Base), ft)
		}
		var cs []string
		for _, k := range fv.m.FieldKeys(a.StructT, a.Field) {
			cs = append(cs, fv.m.Sel(fv.m.heapGet(st, k), a.Base))
		}
		return Val{T: ft, C: cs}
	case ACell:
		var cs []string
		for _, k := range fv.m.CellKeys(a.T) {
			cs = append(cs, fv.m.Sel(fv.m.heapGet(st, k), a.Base))
		}
		return Val{T: a.T, C: cs}
	case AElem:
		if isStructLike(a.T) {
			// elements that are structs by value: stored in element heap by component
		}
		var cs []string
		for _, k := range fv.m.ElemKeys(a.T) {
			cs = append(cs, Select(Select(fv.m.heapGet(st, k), a.Arr), a.Idx))
		}
		return Val{T: a.T, C: cs}
	}
	panic("load")
}

func (fv *FuncVC) store(st *State, a *Addr, v Val) {
	switch a.Kind {
	case AStruct:
		fv.storeStruct(st, a.Base, a.T, v)
	case AField:
		ft := a.StructT.Underlying().(*types.Struct).Field(a.Field).Type()
		if isStructLike(ft) {
			fv.storeStruct(st, fv.fldTerm(a.StructT, a.Field, a.Base), ft, v)
			return
		}
		for j, k := range fv.m.FieldKeys(a.StructT, a.Field) {
			fv.m.heapStore(st, k, a.Base, v.C[j])
		}
	case ACell:
		for j, k := range fv.m.CellKeys(a.T) {
			fv.m.heapStore(st, k, a.Base, v.C[j])
		}
	case AElem:
		for j, k := range fv.m.ElemKeys(a.T) {
			h := fv.m.heapGet(st, k)
			fv.m.heapSetAt(st, k, a.Arr, Store(h, a.Arr, Store(Select(h, a.Arr), a.Idx, v.C[j])))
		}
	}
}

// withTypeFacts assumes the type facts of a value that comes from the environment (load, param, call result).
func (fv *FuncVC) typeFacts(v Val, st *State, guard string) {
	if fv.binderDepth > 0 {
		return
	}
	cnt := ""
	if st != nil {
		cnt = st.cnt
	}
	for _, f := range fv.m.TypeFacts(v, cnt) {
		fv.ctx.Assume(f)
	}
	fv.ifaceFacts(v)
}

// ifaceFacts: closed-world typing of interface values declared in the module.
func (fv *FuncVC) ifaceFacts(v Val) {
	if v.T == nil {
		return
	}
	if _, ok := v.T.Underlying().(*types.Interface); !ok {
		return
	}
	n, ok := types.Unalias(v.T).(*types.Named)
	if !ok || !isModulePkg(n.Obj().Pkg()) || v.T.Underlying().(*types.Interface).NumMethods() == 0 || isOpenInterface(v.T) {
		return
	}
	impls := fv.v.Implementers(v.T)
	if len(impls) == 0 || len(impls) > 60 {
		return
	}
	ds := []string{Eq(v.C[0], "0")}
	for _, t := range impls {
		ds = append(ds, Eq(v.C[0], fv.typeID(t)))
	}
	fv.ctx.Assume(Or(ds...))
}

func (fv *FuncVC) typeID(t types.Type) string {
	id := IntLit(int64(fv.ctx.TypeID(types.TypeString(types.Unalias(t), fv.m.qual))))
	if fv.typeByID == nil {
		fv.typeByID = map[string]types.Type{}
	}
	fv.typeByID[id] = types.Unalias(t)
	return id
}

func (fv *FuncVC) alloc(st *State) string {
	r := fv.ctx.Fresh("new", SInt)
	fv.ctx.Assume(And(Eq(r, st.cnt), fmt.Sprintf("(> %s 0)", r)))
	st.noteAlloc(r)
	st.cnt = fmt.Sprintf("(+ %s 1)", r)
	return r
}

// box / unbox values in interfaces
func (fv *FuncVC) box(st *State, v Val) string {
	cs := fv.m.Flatten(v.T)
	if isStructLike(v.T) {
		r := fv.alloc(st)
		fv.storeStruct(st, r, v.T, v)
		return r
	}
	if len(cs) == 1 {
		switch cs[0].Sort {
		case SInt:
			return v.C[0]
		case SBool:
			return Ite(v.C[0], "1", "0")
		case SReal:
			return App("box_real", v.C[0])
		}
	}
	r := fv.alloc(st)
	fv.store(st, &Addr{Kind: ACell, Base: r, T: v.T}, v)
	return r
}

func (fv *FuncVC) unbox(st *State, pay string, t types.Type) Val {
	cs := fv.m.Flatten(t)
	if isStructLike(t) {
		return fv.loadStruct(st, pay, t)
	}
	if len(cs) == 1 {
		switch cs[0].Sort {
		case SInt:
			return Val{T: t, C: []string{pay}}
		case SBool:
			return Val{T: t, C: []string{fmt.Sprintf("(= %s 1)", pay)}}
		case SReal:
			return Val{T: t, C: []string{App("unbox_real", pay)}}
		}
	}
	return fv.load(st, &Addr{Kind: ACell, Base: pay, T: t})
}

// ---- CFG helpers

func computeLoops(fn *ssa.Function) map[*ssa.BasicBlock]*loopInfo {
	loops := map[*ssa.BasicBlock]*loopInfo{}
	for _, b := range fn.Blocks {
		for _, s := range b.Succs {
			if s.Dominates(b) {
				li := loops[s]
				if li == nil {
					li = &loopInfo{header: s, blocks: map[*ssa.BasicBlock]bool{s: true}}
					loops[s] = li
				}
				// add nodes reaching b without passing s
				var stack []*ssa.BasicBlock
				if !li.blocks[b] {
					li.blocks[b] = true
					stack = append(stack, b)
				}
				for len(stack) > 0 {
					n := stack[len(stack)-1]
					stack = stack[:len(stack)-1]
					for _, p := range n.Preds {
						if !li.blocks[p] {
							li.blocks[p] = true
							stack = append(stack, p)
						}
					}
				}
			}
		}
	}
	var hs []*ssa.BasicBlock
	for h := range loops {
		hs = append(hs, h)
	}
	sort.Slice(hs, func(i, j int) bool { return hs[i].Index < hs[j].Index })
	for i, h := range hs {
		loops[h].ordinal = i + 1
	}
	return loops
}

func rpo(fn *ssa.Function) []*ssa.BasicBlock {
	seen := map[*ssa.BasicBlock]bool{}
	var post []*ssa.BasicBlock
	var dfs func(b *ssa.BasicBlock)
	dfs = func(b *ssa.BasicBlock) {
		seen[b] = true
		for _, s := range b.Succs {
			if !seen[s] && !s.Dominates(b) {
				dfs(s)
			}
		}
		post = append(post, b)
	}
	dfs(fn.Blocks[0])
	for i, j := 0, len(post)-1; i < j; i, j = i+1, j-1 {
		post[i], post[j] = post[j], post[i]
	}
	// RPO computed ignoring back edges is a topological order of the acyclic graph only if
	// every non-back edge goes forward; DFS guarantees that for reducible graphs.
	return post
}

// ---- running a function

func (fv *FuncVC) newFrame(fn *ssa.Function, depth int) *Frame {
	return &Frame{fn: fn, vals: map[ssa.Value]Val{}, depth: depth, loops: computeLoops(fn), edgeCond: map[edge]string{},
		edgeState: map[edge]*State{}, reach: map[*ssa.BasicBlock]string{}, dbg: map[*ssa.BasicBlock][]dbgEntry{}, rangeSt: map[ssa.Value]*rangeState{}}
}

// run executes the body of fr.fn from state st under guard.
func (fv *FuncVC) run(fr *Frame, args []Val, freeVars []Val, st *State, guard string) {
	fn := fr.fn
	if len(fn.Blocks) == 0 {
		engineErr("function %s has no body", fn)
	}
	for i, p := range fn.Params {
		fr.vals[p] = args[i]
	}
	for i, f := range fn.FreeVars {
		fr.vals[f] = freeVars[i]
	}
	fr.guard = guard
	fr.entrySt = st.Clone()
	if len(fv.v.typeinvs) > 0 {
		for _, p := range fn.Params {
			fv.assumeTypeInv(fr, p, fr.vals[p], st, guard)
		}
		for _, f := range fn.FreeVars {
			fv.assumeTypeInv(fr, f, fr.vals[f], st, guard)
		}
	}
	order := rpo(fn)
	for _, b := range order {
		var reach string
		var cur *State
		isHeader := fr.loops[b] != nil
		if b == fn.Blocks[0] {
			reach = guard
			cur = st.Clone()
		} else {
			var conds []string
			var sts []*State
			var preds []*ssa.BasicBlock
			for _, p := range b.Preds {
				if b.Dominates(p) && isHeader {
					continue // back edge
				}
				e := edge{p.Index, b.Index}
				c, ok := fr.edgeCond[e]
				if !ok || c == "false" {
					continue
				}
				// multiple edges p->b (both branches of an if): cond already merged
				dup := false
				for _, q := range preds {
					if q == p {
						dup = true
					}
				}
				if dup {
					continue
				}
				conds = append(conds, c)
				sts = append(sts, fr.edgeState[e])
				preds = append(preds, p)
			}
			if len(conds) == 0 {
				fr.reach[b] = "false"
				continue
			}
			reach = Or(conds...)
			if len(reach) > 60 {
				n := fv.ctx.Fresh("reach", SBool)
				fv.ctx.Assume(Eq(n, reach))
				reach = n
			}
			cur = fv.m.mergeStates(conds, sts)
			// phis
			for _, in := range b.Instrs {
				phi, ok := in.(*ssa.Phi)
				if !ok {
					break
				}
				var vals []Val
				for _, p := range preds {
					for pi, q := range b.Preds {
						if q == p {
							vals = append(vals, fv.get(fr, phi.Edges[pi]))
							break
						}
					}
				}
				pv := fv.m.iteVals(conds, vals)
				pv.T = phi.Type()
				fr.vals[phi] = pv
			}
		}
		fr.reach[b] = reach
		fr.curBlock = b
		if coverReturns && fr.depth <= 1 && len(b.Instrs) > 0 {
			// vacuity self-test: is this block reachable under the precondition and the contracts assumed so far?
			fv.nRetCover++
			fv.cover(fmt.Sprintf("return@block%d:%s#%d", b.Index, fv.pos(b.Instrs[0].Pos()), fv.nRetCover), reach, "block reachable", fv.pos(b.Instrs[0].Pos()))
		}
		if isHeader {
			cur = fv.loopHeader(fr, b, cur, reach)
		}
		fv.execBlock(fr, b, cur, reach)
	}
}

// specOrdinal: the `loop n` block of the contract that belongs to this loop of the code. Loops are numbered in source
// order; when the function under verification gained or lost an un-annotated loop the numbers shift, and
// verifyWithAliases retries with the order-preserving assignments of contract loops to code loops (loopRemap).
func (fv *FuncVC) specOrdinal(fr *Frame, li *loopInfo) int {
	if fv.helperLoops != nil && fr.fn != fv.fn {
		if n, ok := fv.helperLoops[fmt.Sprintf("%s#%d", funcKey(fr.fn), li.ordinal)]; ok {
			return n
		}
		if _, own := fv.v.contracts[fr.fn]; !own {
			return -1
		}
	}
	if fv.loopRemap != nil && fr.fn == fv.fn {
		if n, ok := fv.loopRemap[li.ordinal]; ok {
			return n
		}
		return -1
	}
	return li.ordinal
}

// helperLoopSpec: the `loop n` block of the function under verification that was assigned to this loop of an inlined,
// contract-less helper by the retry after an "extract method" edit
func (fv *FuncVC) helperLoopSpec(fr *Frame, li *loopInfo) *LoopSpec {
	if fv.helperLoops == nil || fr.fn == fv.fn || fv.con == nil {
		return nil
	}
	if n, ok := fv.helperLoops[fmt.Sprintf("%s#%d", funcKey(fr.fn), li.ordinal)]; ok {
		return fv.con.Loops[n]
	}
	return nil
}

func (fv *FuncVC) loopSpec(fr *Frame, li *loopInfo) *LoopSpec {
	if ls := fv.helperLoopSpec(fr, li); ls != nil {
		return ls
	}
	ord := fv.specOrdinal(fr, li)
	if fr.con != nil {
		if ls, ok := fr.con.Loops[ord]; ok {
			return ls
		}
	}
	if c, ok := fv.v.contracts[fr.fn]; ok {
		if ls, ok := c.Loops[ord]; ok {
			return ls
		}
	}
	return nil
}

func (fv *FuncVC) loopHeader(fr *Frame, h *ssa.BasicBlock, cur *State, reach string) *State {
	li := fr.loops[h]
	ls := fv.loopSpec(fr, li)
	li.spec = ls
	// 1. invariants hold on entry
	if ls != nil {
		for _, inv := range ls.Invariants {
			t := fv.evalClause(fv.frameEnv(fr, h, cur), inv)
			fv.oblige("inv.init", fmt.Sprintf("loop%d:%s", li.ordinal, clauseLabel(inv)), reach, t, inv.Text, inv.Pos)
		}
	}
	// auto invariant data for range-index loops: remember entry values of phis
	entryPhi := map[*ssa.Phi]Val{}
	for _, in := range h.Instrs {
		if phi, ok := in.(*ssa.Phi); ok {
			entryPhi[phi] = fr.vals[phi]
		} else {
			break
		}
	}
	// 2. havoc
	keys, all := fv.loopWriteSet(fr, li)
	if os.Getenv("GOCV_DEBUG") != "" {
		fmt.Fprintf(os.Stderr, "[debug] %s loop %d havoc all=%v keys=%v\n", shortFuncName(fr.fn), li.ordinal, all, keys)
	}
	if all {
		restore := fv.keepProtected(cur, keys)
		fv.ctx.nfresh++
		cur.heap = map[string]string{}
		cur.epoch = 1000000 + fv.ctx.nfresh
		cur.mergedFrom = nil
		cur.touch()
		restore()
	} else {
		general, gall := fv.loopGeneralWrites(fr, li)
		for _, k := range keys {
			hk := HeapKey{Key: k, Sort: heapKeySorts[k]}
			before := fv.m.heapGet(cur, hk)
			after := fv.m.heapHavoc(cur, hk)
			if !gall && !general[k] && strings.HasPrefix(string(hk.Sort), "(Array Int ") {
				// automatic frame: only objects allocated inside the loop are written under this key
				fv.ctx.Assume(fmt.Sprintf("(forall ((r Int)) (! (=> (< r %s) (= (select %s r) (select %s r))) :pattern ((select %s r))))", cur.cnt, after, before, after))
			}
		}
	}
	oldCnt := cur.cnt
	cur.cnt = fv.ctx.Fresh("cnt", SInt)
	fv.ctx.Assume(fmt.Sprintf("(>= %s %s)", cur.cnt, oldCnt))
	for _, in := range h.Instrs {
		phi, ok := in.(*ssa.Phi)
		if !ok {
			break
		}
		// phis whose all back-edge operands equal the phi itself or the entry value are not havoced
		nv := fv.m.FreshVal(phiName(phi), phi.Type())
		fr.vals[phi] = nv
		fv.typeFacts(nv, cur, reach)
		// auto-invariant of a counter: an integer variable that every back edge leaves unchanged or increases by a
		// non-negative constant never drops below its value at loop entry (integers are mathematical, A1)
		if monotoneCounter(h, phi) && len(nv.C) == 1 && len(entryPhi[phi].C) == 1 {
			fv.ctx.Assume(fmt.Sprintf("(>= %s %s)", nv.C[0], entryPhi[phi].C[0]))
		}
		// auto-invariant for range index: monotone lower bound
		if phi.Comment == "rangeindex" {
			fv.ctx.Assume(fmt.Sprintf("(>= %s %s)", nv.C[0], entryPhi[phi].C[0]))
			// auto-invariant of `for i := range s`: index < len (len is evaluated once, before the loop)
			for _, in2 := range h.Instrs {
				cmp, ok := in2.(*ssa.BinOp)
				if !ok || cmp.Op != token.LSS {
					continue
				}
				inc, ok := cmp.X.(*ssa.BinOp)
				if !ok || inc.Op != token.ADD || inc.X != phi {
					continue
				}
				if _, computed := fr.vals[cmp.Y]; computed || isConstVal(cmp.Y) {
					lv := fv.get(fr, cmp.Y)
					fv.ctx.Assume(fmt.Sprintf("(or (< %s %s) (= %s %s))", nv.C[0], lv.One(), nv.C[0], entryPhi[phi].C[0]))
				}
			}
		}
	}
	// 3. assume invariants
	if ls != nil {
		for _, inv := range ls.Invariants {
			t := fv.evalClause(fv.frameEnv(fr, h, cur), inv)
			fv.ctx.Assume(Implies(reach, t))
		}
		if ls.Decreases != nil {
			d := fv.evalSpec(fv.frameEnv(fr, h, cur), ls.Decreases.Expr)
			n := fv.ctx.Fresh("dec0", SInt)
			fv.ctx.Assume(Eq(n, d.One()))
			li.dec0 = n
		}
	}
	return cur
}

// monotoneCounter: phi is an integer header phi whose back-edge operands are phi itself or phi + c with a constant c >= 0
func monotoneCounter(h *ssa.BasicBlock, phi *ssa.Phi) bool {
	bt, ok := phi.Type().Underlying().(*types.Basic)
	if !ok || bt.Info()&types.IsInteger == 0 || bt.Info()&types.IsUnsigned != 0 {
		return false
	}
	back := 0
	for i, p := range h.Preds {
		if !h.Dominates(p) {
			continue
		}
		back++
		e := phi.Edges[i]
		if e == phi {
			continue
		}
		inc, ok := e.(*ssa.BinOp)
		if !ok || inc.Op != token.ADD || inc.X != phi {
			return false
		}
		c, ok := inc.Y.(*ssa.Const)
		if !ok || c.Value == nil || constant.Sign(c.Value) < 0 {
			return false
		}
	}
	return back > 0
}

func phiName(phi *ssa.Phi) string {
	if phi.Comment != "" {
		return phi.Comment
	}
	return phi.Name()
}

func clauseLabel(c Clause) string {
	if c.Label != "" {
		return c.Label
	}
	i := strings.LastIndex(c.Pos, ":")
	return "L" + c.Pos[i+1:]
}

// backEdge: invariant preservation for edge b -> h
func (fv *FuncVC) backEdge(fr *Frame, b, h *ssa.BasicBlock, st *State, cond string) {
	li := fr.loops[h]
	ls := li.spec
	// bind phis to their back-edge operands
	saved := map[*ssa.Phi]Val{}
	predIdx := -1
	for i, p := range h.Preds {
		if p == b {
			predIdx = i
		}
	}
	var newVals []Val
	var phis []*ssa.Phi
	for _, in := range h.Instrs {
		phi, ok := in.(*ssa.Phi)
		if !ok {
			break
		}
		phis = append(phis, phi)
		newVals = append(newVals, fv.get(fr, phi.Edges[predIdx]))
	}
	for i, phi := range phis {
		saved[phi] = fr.vals[phi]
		nv := newVals[i]
		nv.T = phi.Type()
		fr.vals[phi] = nv
	}
	if ls != nil {
		for _, inv := range ls.Invariants {
			t := fv.evalClause(fv.frameEnv(fr, h, st), inv)
			edgePos := ""
			for k := len(b.Instrs) - 1; k >= 0 && edgePos == ""; k-- {
				if p := fv.v.prog.Fset.Position(b.Instrs[k].Pos()); p.Line > 0 {
					edgePos = fmt.Sprintf(" [back edge from line %d]", p.Line)
				}
			}
			fv.oblige("inv.pres", fmt.Sprintf("loop%d:%s", li.ordinal, clauseLabel(inv)), cond, t, inv.Text+edgePos, inv.Pos)
			// later clauses may rely on earlier ones at the same back edge
			fv.ctx.Assume(Implies(cond, t))
		}
		if ls.Decreases != nil {
			d := fv.evalSpec(fv.frameEnv(fr, h, st), ls.Decreases.Expr)
			fv.oblige("dec", fmt.Sprintf("loop%d", li.ordinal), cond, fmt.Sprintf("(and (>= %s 0) (< %s %s))", li.dec0, d.One(), li.dec0), ls.Decreases.Text, ls.Decreases.Pos)
		}
	}
	for phi, v := range saved {
		fr.vals[phi] = v
	}
}

func (fv *FuncVC) execBlock(fr *Frame, b *ssa.BasicBlock, st *State, reach string) {
	for idx, in := range b.Instrs {
		_ = idx
		switch x := in.(type) {
		case *ssa.Phi:
			// handled
		case *ssa.DebugRef:
			if id, ok := x.Expr.(interface{ String() string }); ok {
				_ = id
			}
			if obj := x.Object(); obj != nil {
				fr.dbg[b] = append(fr.dbg[b], dbgEntry{obj.Name(), x.X, x.IsAddr})
			}
		case *ssa.If:
			c := fv.get(fr, x.Cond).One()
			fv.setEdge(fr, b, b.Succs[0], And(reach, c), st)
			fv.setEdge(fr, b, b.Succs[1], And(reach, Not(c)), st)
		case *ssa.Jump:
			fv.setEdge(fr, b, b.Succs[0], reach, st)
		case *ssa.Return:
			var vals []Val
			for _, r := range x.Results {
				vals = append(vals, fv.get(fr, r))
			}
			if fr.top {
				fv.checkPost(fr, b, st, reach, vals, fv.pos(x.Pos()))
				fv.checkTypeInvAtReturn(fr, b, st, reach, fv.pos(x.Pos()))
			}
			fr.rets = append(fr.rets, retInfo{reach, vals, st.Clone()})
		case *ssa.Panic:
			if fv.nopanic {
				fv.oblige("safe:panic", "", reach, "false", "explicit panic unreachable", fv.pos(x.Pos()))
			}
		case *ssa.Store:
			ptr := fv.get(fr, x.Addr)
			fv.nilCheck(reach, ptr.One(), "store", x.Pos())
			a := fv.addrOf(ptr.One(), x.Addr.Type().Underlying().(*types.Pointer).Elem())
			fv.store(st, a, fv.get(fr, x.Val))
		case *ssa.MapUpdate:
			mv := fv.get(fr, x.Map)
			mt := x.Map.Type().Underlying().(*types.Map)
			if fv.nopanic {
				fv.oblige("safe:nilmap", "", reach, Not(Eq(mv.One(), "0")), "assignment to entry in nil map", fv.pos(x.Pos()))
			}
			k := fv.mapKeyTerm(fv.get(fr, x.Key))
			dk := fv.m.MapDomKey(mt)
			d := fv.m.heapGet(st, dk)
			fv.m.heapSetAt(st, dk, mv.One(), Store(d, mv.One(), Store(Select(d, mv.One()), k, "true")))
			val := fv.get(fr, x.Value)
			for j, vk := range fv.m.MapValKeys(mt) {
				h := fv.m.heapGet(st, vk)
				fv.m.heapSetAt(st, vk, mv.One(), Store(h, mv.One(), Store(Select(h, mv.One()), k, val.C[j])))
			}
		case *ssa.Defer, *ssa.RunDefers:
			// the module's defers are mutex unlocks / file closes; no effect on modelled state
		case *ssa.Go, *ssa.Send, *ssa.Select:
			engineErr("%s: unsupported instruction %T", shortFuncName(fr.fn), in)
		case ssa.Value:
			v := fv.execValue(fr, b, st, reach, x)
			if x.Type() != nil {
				if _, isTuple := x.Type().(*types.Tuple); !isTuple && v.T == nil {
					v.T = x.Type()
				}
			}
			fr.vals[x] = v
			if len(fv.v.typeinvs) > 0 {
				fv.assumeTypeInv(fr, x, v, st, reach)
				if _, isCall := x.(*ssa.Call); isCall {
					fv.reassumeTypeInvAfterCall(fr, b, st, reach)
				}
			}
		default:
			engineErr("%s: unsupported instruction %T", shortFuncName(fr.fn), in)
		}
	}
}

func (fv *FuncVC) setEdge(fr *Frame, from, to *ssa.BasicBlock, cond string, st *State) {
	if to.Dominates(from) && fr.loops[to] != nil {
		fv.backEdge(fr, from, to, st, cond)
		return
	}
	e := edge{from.Index, to.Index}
	if old, ok := fr.edgeCond[e]; ok {
		// both branches of an If lead to the same block
		fr.edgeCond[e] = Or(old, cond)
		return
	}
	if len(cond) > 80 {
		n := fv.ctx.Fresh("edge", SBool)
		fv.ctx.Assume(Eq(n, cond))
		cond = n
	}
	fr.edgeCond[e] = cond
	fr.edgeState[e] = st.Clone()
}

func (fv *FuncVC) nilCheck(reach, ptr, what string, pos token.Pos) {
	if !fv.nopanic {
		return
	}
	if _, ok := fv.addrs[ptr]; ok {
		// addresses derived by FieldAddr/IndexAddr were checked at derivation
		return
	}
	if strings.HasPrefix(ptr, "new!") {
		return
	}
	fv.oblige("safe:nil", what, reach, Not(Eq(ptr, "0")), "nil pointer dereference ("+what+")", fv.pos(pos))
}

func (fv *FuncVC) mapKeyTerm(k Val) string {
	if len(k.C) == 1 {
		if fv.m.Flatten(k.T)[0].Sort == SBool {
			return k.C[0]
		}
		return k.C[0]
	}
	// interface keys etc.: abstract pairing
	name := fmt.Sprintf("pair%d", len(k.C))
	srt := make([]Sort, len(k.C))
	cs := fv.m.Flatten(k.T)
	for i := range srt {
		srt[i] = cs[i].Sort
	}
	name += "$" + fv.m.TypeKey(k.T)
	fv.ctx.Decl(name, srt, SInt)
	return App(name, k.C...)
}

func intDiv(a, b string) string {
	// Go truncated division
	return fmt.Sprintf("(ite (>= %s 0) (div %s %s) (- (div (- %s) %s)))", a, a, b, a, b)
}

func intRem(a, b string) string {
	return fmt.Sprintf("(- %s (* %s %s))", a, b, intDiv(a, b))
}

func (fv *FuncVC) uf(name string, args []Sort, ret Sort) string {
	return fv.ctx.Decl(name, args, ret)
}

func (fv *FuncVC) execValue(fr *Frame, b *ssa.BasicBlock, st *State, reach string, in ssa.Value) Val {
	switch x := in.(type) {
	case *ssa.Alloc:
		r := fv.alloc(st)
		pt := x.Type().(*types.Pointer).Elem()
		if at, ok := pt.Underlying().(*types.Array); ok {
			// element storage: zero-initialised
			fv.zeroElems(st, r, at.Elem())
			return Val{T: x.Type(), C: []string{r}}
		}
		if isStructLike(pt) {
			fv.storeStruct(st, r, pt, fv.m.Zero(pt))
		} else {
			fv.store(st, &Addr{Kind: ACell, Base: r, T: pt}, fv.m.Zero(pt))
			// a local variable cell that only this function assigns (no closure that captures it stores to it, and its
			// address goes nowhere else): code called from here cannot change it, whatever else it writes
			if x.Comment != "" && !isStructLike(pt) && cellOnlyAssignedHere(x) {
				fv.immuneCells = append(fv.immuneCells, immuneCell{ref: r, t: pt})
			}
		}
		return Val{T: x.Type(), C: []string{r}}
	case *ssa.BinOp:
		return fv.binop(fr, reach, x)
	case *ssa.UnOp:
		xv := fv.get(fr, x.X)
		switch x.Op {
		case token.MUL:
			fv.nilCheck(reach, xv.One(), "load", x.Pos())
			a := fv.addrOf(xv.One(), x.X.Type().Underlying().(*types.Pointer).Elem())
			v := fv.load(st, a)
			v.T = x.Type()
			fv.typeFacts(v, st, reach)
			return v
		case token.NOT:
			return Val{T: x.Type(), C: []string{Not(xv.One())}}
		case token.SUB:
			if fv.m.Flatten(x.Type())[0].Sort == SReal {
				return Val{T: x.Type(), C: []string{"(- " + xv.One() + ")"}}
			}
			return Val{T: x.Type(), C: []string{"(- " + xv.One() + ")"}}
		case token.XOR:
			fv.uf("bitnot", []Sort{SInt}, SInt)
			return Val{T: x.Type(), C: []string{App("bitnot", xv.One())}}
		}
		engineErr("unsupported unop %v", x.Op)
	case *ssa.Call:
		return fv.call(fr, b, st, reach, x)
	case *ssa.ChangeInterface:
		v := fv.get(fr, x.X)
		return Val{T: x.Type(), C: v.C}
	case *ssa.ChangeType:
		v := fv.get(fr, x.X)
		return Val{T: x.Type(), C: v.C, Cl: v.Cl}
	case *ssa.Convert:
		return fv.convert(fr, st, reach, x)
	case *ssa.MultiConvert:
		v := fv.m.FreshVal("mconv", x.Type())
		fv.typeFacts(v, st, reach)
		return v
	case *ssa.Extract:
		tv := fv.get(fr, x.Tuple)
		tp := x.Tuple.Type().(*types.Tuple)
		lo, hi := fv.m.TupleRange(tp, x.Index)
		return Val{T: x.Type(), C: tv.C[lo:hi]}
	case *ssa.Field:
		sv := fv.get(fr, x.X)
		lo, hi := fv.m.FieldRange(x.X.Type().Underlying().(*types.Struct), x.Field)
		return Val{T: x.Type(), C: sv.C[lo:hi]}
	case *ssa.FieldAddr:
		pv := fv.get(fr, x.X)
		fv.nilCheckAlways(reach, pv.One(), "field", x.Pos())
		structT := x.X.Type().Underlying().(*types.Pointer).Elem()
		term := fv.fldTerm(structT, x.Field, pv.One())
		ft := structT.Underlying().(*types.Struct).Field(x.Field).Type()
		if _, ok := fv.addrs[term]; !ok {
			fv.addrs[term] = &Addr{Kind: AField, Base: pv.One(), StructT: structT, Field: x.Field, T: ft}
		}
		return Val{T: x.Type(), C: []string{term}}
	case *ssa.Index:
		// string or array value index
		xv := fv.get(fr, x.X)
		iv := fv.get(fr, x.Index)
		if bt, ok := x.X.Type().Underlying().(*types.Basic); ok && bt.Info()&types.IsString != 0 {
			if fv.nopanic {
				fv.oblige("safe:index", "string", reach, fmt.Sprintf("(and (>= %s 0) (< %s (slen %s)))", iv.One(), iv.One(), xv.One()), "string index in range", fv.pos(x.Pos()))
			}
			r := App("sat", xv.One(), iv.One())
			fv.ctx.Assume(fmt.Sprintf("(and (>= %s 0) (< %s 256))", r, r))
			return Val{T: x.Type(), C: []string{r}}
		}
		v := fv.m.FreshVal("arrindex", x.Type())
		fv.typeFacts(v, st, reach)
		return v
	case *ssa.IndexAddr:
		xv := fv.get(fr, x.X)
		iv := fv.get(fr, x.Index)
		var arr, idx, ln string
		var et types.Type
		switch t := x.X.Type().Underlying().(type) {
		case *types.Slice:
			arr, idx, ln = xv.C[0], sidx(xv.C[1], iv.One()), xv.C[2]
			et = t.Elem()
		case *types.Pointer:
			at := t.Elem().Underlying().(*types.Array)
			arr, idx, ln = xv.One(), iv.One(), IntLit(at.Len())
			et = at.Elem()
		default:
			engineErr("IndexAddr on %v", x.X.Type())
		}
		if fv.nopanic {
			fv.oblige("safe:index", "", reach, fmt.Sprintf("(and (>= %s 0) (< %s %s))", iv.One(), iv.One(), ln), "index in range", fv.pos(x.Pos()))
		}
		term := fv.ctx.Fresh("elemaddr", SInt)
		fv.ctx.Assume(fmt.Sprintf("(> %s 0)", term))
		fv.addrs[term] = &Addr{Kind: AElem, Arr: arr, Idx: idx, T: et}
		return Val{T: x.Type(), C: []string{term}}
	case *ssa.Lookup:
		xv := fv.get(fr, x.X)
		iv := fv.get(fr, x.Index)
		if mt, ok := x.X.Type().Underlying().(*types.Map); ok {
			k := fv.mapKeyTerm(iv)
			dom := Select(Select(fv.m.heapGet(st, fv.m.MapDomKey(mt)), xv.One()), k)
			okT := And(Not(Eq(xv.One(), "0")), dom)
			var cs []string
			zero := fv.m.Zero(mt.Elem())
			for j, vk := range fv.m.MapValKeys(mt) {
				cs = append(cs, Ite(okT, Select(Select(fv.m.heapGet(st, vk), xv.One()), k), zero.C[j]))
			}
			ev := Val{T: mt.Elem(), C: cs}
			// name the components to keep terms small and attach type facts
			nv := fv.m.FreshVal("lookup", mt.Elem())
			for j := range cs {
				fv.ctx.Assume(Eq(nv.C[j], cs[j]))
			}
			fv.typeFacts(nv, st, reach)
			ev = nv
			if x.CommaOk {
				return Val{T: x.Type(), C: append(append([]string{}, ev.C...), okT)}
			}
			return ev
		}
		// string index
		if fv.nopanic {
			fv.oblige("safe:index", "string", reach, fmt.Sprintf("(and (>= %s 0) (< %s (slen %s)))", iv.One(), iv.One(), xv.One()), "string index in range", fv.pos(x.Pos()))
		}
		r := App("sat", xv.One(), iv.One())
		fv.ctx.Assume(fmt.Sprintf("(and (>= %s 0) (< %s 256))", r, r))
		return Val{T: x.Type(), C: []string{r}}
	case *ssa.MakeClosure:
		fn := x.Fn.(*ssa.Function)
		var bs []Val
		for _, bnd := range x.Bindings {
			bs = append(bs, fv.get(fr, bnd))
		}
		r := fv.alloc(st)
		return Val{T: x.Type(), C: []string{r}, Cl: &Closure{Fn: fn, Bindings: bs}}
	case *ssa.MakeInterface:
		xv := fv.get(fr, x.X)
		xv.T = x.X.Type()
		pay := fv.box(st, xv)
		return Val{T: x.Type(), C: []string{fv.typeID(x.X.Type()), pay}}
	case *ssa.MakeMap:
		r := fv.alloc(st)
		mt := x.Type().Underlying().(*types.Map)
		dk := fv.m.MapDomKey(mt)
		d := fv.m.heapGet(st, dk)
		fv.m.heapSetAt(st, dk, r, Store(d, r, fmt.Sprintf("((as const (Array %s Bool)) false)", fv.m.keySort(mt.Key()))))
		return Val{T: x.Type(), C: []string{r}}
	case *ssa.MakeSlice:
		r := fv.alloc(st)
		ln := fv.get(fr, x.Len).One()
		if fv.nopanic {
			fv.oblige("safe:makeslice", "", reach, fmt.Sprintf("(>= %s 0)", ln), "makeslice: len out of range", fv.pos(x.Pos()))
		}
		et := x.Type().Underlying().(*types.Slice).Elem()
		fv.zeroElems(st, r, et)
		return Val{T: x.Type(), C: []string{r, "0", ln}}
	case *ssa.Next:
		rs := fr.rangeSt[x.Iter]
		okv := fv.ctx.Fresh("next.ok", SBool)
		if rs != nil && rs.isMap {
			kv := fv.m.FreshVal("next.k", rs.mt.Key())
			fv.typeFacts(kv, st, reach)
			k := fv.mapKeyTerm(kv)
			dom := Select(Select(fv.m.heapGet(st, fv.m.MapDomKey(rs.mt)), rs.m), k)
			fv.ctx.Assume(Implies(okv, And(dom, Not(Eq(rs.m, "0")))))
			var vcs []string
			for _, vk := range fv.m.MapValKeys(rs.mt) {
				vcs = append(vcs, Select(Select(fv.m.heapGet(st, vk), rs.m), k))
			}
			vv := fv.m.FreshVal("next.v", rs.mt.Elem())
			for j := range vcs {
				fv.ctx.Assume(Eq(vv.C[j], vcs[j]))
			}
			fv.typeFacts(vv, st, reach)
			cs := []string{okv}
			cs = append(cs, kv.C...)
			cs = append(cs, vv.C...)
			return Val{T: x.Type(), C: cs}
		}
		// string iteration: ok, index, rune
		idx := fv.ctx.Fresh("next.i", SInt)
		rn := fv.ctx.Fresh("next.r", SInt)
		if rs != nil {
			fv.ctx.Assume(Implies(okv, fmt.Sprintf("(and (>= %s 0) (< %s (slen %s)))", idx, idx, rs.str)))
		}
		fv.ctx.Assume(fmt.Sprintf("(and (>= %s 0) (<= %s 1114111))", rn, rn))
		return Val{T: x.Type(), C: []string{okv, idx, rn}}
	case *ssa.Range:
		xv := fv.get(fr, x.X)
		if mt, ok := x.X.Type().Underlying().(*types.Map); ok {
			fr.rangeSt[x] = &rangeState{isMap: true, mt: mt, m: xv.One()}
		} else {
			fr.rangeSt[x] = &rangeState{str: xv.One()}
		}
		return Val{T: x.Type(), C: []string{"0"}}
	case *ssa.Slice:
		return fv.sliceOp(fr, st, reach, x)
	case *ssa.TypeAssert:
		return fv.typeAssert(fr, st, reach, x)
	case *ssa.SliceToArrayPointer:
		xv := fv.get(fr, x.X)
		return Val{T: x.Type(), C: []string{xv.C[0]}}
	}
	engineErr("%s: unsupported value instruction %T", shortFuncName(fr.fn), in)
	return Val{}
}

func (fv *FuncVC) nilCheckAlways(reach, ptr, what string, pos token.Pos) {
	if !fv.nopanic {
		return
	}
	if strings.HasPrefix(ptr, "new!") || strings.HasPrefix(ptr, "glob$") {
		return
	}
	if a, ok := fv.addrs[ptr]; ok && a.Kind != ACell {
		return
	}
	fv.oblige("safe:nil", what, reach, Not(Eq(ptr, "0")), "nil pointer dereference ("+what+")", fv.pos(pos))
}

func (fv *FuncVC) zeroElems(st *State, arr string, et types.Type) {
	cs := fv.m.Flatten(et)
	for j, k := range fv.m.ElemKeys(et) {
		h := fv.m.heapGet(st, k)
		z := fv.m.ZeroComp(cs[j])
		if strings.HasPrefix(z, "lit!") {
			// constant arrays need a value, not a symbol: use a named array that is z everywhere
			name := "zeroarr$" + z
			if !fv.ctx.declared[name] {
				fv.ctx.Const(name, ArrSort(SInt, cs[j].Sort))
				fv.ctx.axioms = append(fv.ctx.axioms, fmt.Sprintf("(forall ((i Int)) (! (= (select %s i) %s) :pattern ((select %s i))))", name, z, name))
			}
			fv.m.heapSetAt(st, k, arr, Store(h, arr, name))
			continue
		}
		fv.m.heapSetAt(st, k, arr, Store(h, arr, fmt.Sprintf("((as const (Array Int %s)) %s)", cs[j].Sort, z)))
	}
}

func (fv *FuncVC) binop(fr *Frame, reach string, x *ssa.BinOp) Val {
	a := fv.get(fr, x.X)
	b := fv.get(fr, x.Y)
	T := x.Type()
	cs := fv.m.Flatten(x.X.Type())
	one := func(s string) Val { return Val{T: T, C: []string{s}} }
	switch x.Op {
	case token.EQL, token.NEQ:
		var eq string
		_, aIface := x.X.Type().Underlying().(*types.Interface)
		_, bIface := x.Y.Type().Underlying().(*types.Interface)
		switch {
		case isNilConst(x.Y):
			eq = Eq(a.C[0], "0")
		case isNilConst(x.X):
			eq = Eq(b.C[0], "0")
		case aIface && bIface:
			// interface equality: same dynamic type and equal payloads (payload equality for boxed
			// values is identity here: under-approximates equality of boxed structs)
			eq = fv.ifaceEq(a, b)
		default:
			var es []string
			for i := range a.C {
				es = append(es, Eq(a.C[i], b.C[i]))
			}
			eq = And(es...)
		}
		if x.Op == token.NEQ {
			return one(Not(eq))
		}
		return one(eq)
	}
	k := cs[0].Kind
	srt := cs[0].Sort
	av, bv := a.C[0], b.C[0]
	switch x.Op {
	case token.ADD:
		if k == "str" {
			return one(App("scat", av, bv))
		}
		return one(fv.wrapUint(k, cs[0].Bits, fmt.Sprintf("(+ %s %s)", av, bv)))
	case token.SUB:
		return one(fv.wrapUint(k, cs[0].Bits, fmt.Sprintf("(- %s %s)", av, bv)))
	case token.MUL:
		return one(fv.wrapUint(k, cs[0].Bits, fmt.Sprintf("(* %s %s)", av, bv)))
	case token.QUO:
		if srt == SReal {
			return one(fmt.Sprintf("(/ %s %s)", av, bv))
		}
		if fv.nopanic {
			fv.oblige("safe:div", "", reach, Not(Eq(bv, "0")), "integer divide by zero", fv.pos(x.Pos()))
		}
		return one(intDiv(av, bv))
	case token.REM:
		if fv.nopanic {
			fv.oblige("safe:div", "", reach, Not(Eq(bv, "0")), "integer divide by zero", fv.pos(x.Pos()))
		}
		return one(intRem(av, bv))
	case token.LSS, token.LEQ, token.GTR, token.GEQ:
		op := map[token.Token]string{token.LSS: "<", token.LEQ: "<=", token.GTR: ">", token.GEQ: ">="}[x.Op]
		if k == "str" {
			lt := App("slt", av, bv)
			gt := App("slt", bv, av)
			switch x.Op {
			case token.LSS:
				return one(lt)
			case token.GTR:
				return one(gt)
			case token.LEQ:
				return one(Not(gt))
			default:
				return one(Not(lt))
			}
		}
		return one(fmt.Sprintf("(%s %s %s)", op, av, bv))
	case token.LAND:
		return one(And(av, bv))
	case token.LOR:
		return one(Or(av, bv))
	case token.AND, token.OR, token.XOR, token.SHL, token.SHR, token.AND_NOT:
		if srt == SBool {
			switch x.Op {
			case token.AND:
				return one(And(av, bv))
			case token.OR:
				return one(Or(av, bv))
			}
		}
		name := map[token.Token]string{token.AND: "bitand", token.OR: "bitor", token.XOR: "bitxor", token.SHL: "bitshl", token.SHR: "bitshr", token.AND_NOT: "bitandnot"}[x.Op]
		fv.uf(name, []Sort{SInt, SInt}, SInt)
		r := Val{T: T, C: []string{fv.ctx.Fresh(name, SInt)}}
		fv.ctx.Assume(Eq(r.C[0], App(name, av, bv)))
		fv.typeFacts(r, nil, reach)
		return r
	}
	engineErr("unsupported binop %v", x.Op)
	return Val{}
}

func (fv *FuncVC) wrapUint(kind string, bits int, t string) string {
	return t // A1: mathematical integers
}

func (fv *FuncVC) ifaceEq(a, b Val) string {
	return And(Eq(a.C[0], b.C[0]), Eq(a.C[1], b.C[1]))
}

func isNilConst(v ssa.Value) bool {
	c, ok := v.(*ssa.Const)
	return ok && c.Value == nil && !isStructLike(c.Type()) && func() bool {
		switch c.Type().Underlying().(type) {
		case *types.Pointer, *types.Slice, *types.Map, *types.Interface, *types.Signature, *types.Chan:
			return true
		}
		if b, ok := c.Type().Underlying().(*types.Basic); ok && b.Kind() == types.UntypedNil {
			return true
		}
		return false
	}()
}

func (fv *FuncVC) convert(fr *Frame, st *State, reach string, x *ssa.Convert) Val {
	v := fv.get(fr, x.X)
	from := x.X.Type().Underlying()
	to := x.Type().Underlying()
	fb, fIsB := from.(*types.Basic)
	tb, tIsB := to.(*types.Basic)
	switch {
	case fIsB && tIsB:
		fi, ti := fb.Info(), tb.Info()
		switch {
		case fi&types.IsInteger != 0 && ti&types.IsInteger != 0:
			fc := fv.m.Flatten(x.X.Type())[0]
			tc := fv.m.Flatten(x.Type())[0]
			if tc.Kind == fc.Kind && tc.Bits >= fc.Bits || (tc.Kind == "int" && fc.Kind == "uint" && tc.Bits > fc.Bits) || fc.Kind == "mathint" {
				return Val{T: x.Type(), C: v.C}
			}
			// narrowing / sign change: identity inside the target range, unknown outside
			r := fv.m.FreshVal("conv", x.Type())
			fv.typeFacts(r, nil, reach)
			lo, hi := "0", pow2[tc.Bits]
			if tc.Kind == "int" {
				lo, hi = "(- "+pow2[tc.Bits-1]+")", pow2[tc.Bits-1]
			}
			fv.ctx.Assume(fmt.Sprintf("(=> (and (>= %s %s) (< %s %s)) (= %s %s))", v.C[0], lo, v.C[0], hi, r.C[0], v.C[0]))
			return r
		case fi&types.IsString != 0 && ti&types.IsString != 0:
			return Val{T: x.Type(), C: v.C}
		case fi&types.IsInteger != 0 && ti&types.IsString != 0:
			fv.uf("str_of_rune", []Sort{SInt}, SInt)
			return Val{T: x.Type(), C: []string{App("str_of_rune", v.C[0])}}
		case fi&types.IsInteger != 0 && ti&types.IsFloat != 0:
			return Val{T: x.Type(), C: []string{"(to_real " + v.C[0] + ")"}}
		case fi&types.IsFloat != 0 && ti&types.IsInteger != 0:
			r := fv.m.FreshVal("f2i", x.Type())
			fv.typeFacts(r, nil, reach)
			return r
		case fi&types.IsFloat != 0 && ti&types.IsFloat != 0:
			return Val{T: x.Type(), C: v.C}
		}
	}
	// string <-> []byte / []rune
	if _, ok := to.(*types.Slice); ok && fIsB && fb.Info()&types.IsString != 0 {
		r := fv.alloc(st)
		et := to.(*types.Slice).Elem().Underlying().(*types.Basic)
		ln := App("slen", v.C[0])
		if et.Kind() == types.Int32 { // []rune
			ln = App("srunes", v.C[0])
		}
		// contents abstract: fresh array
		for _, k := range fv.m.ElemKeys(to.(*types.Slice).Elem()) {
			h := fv.m.heapGet(st, k)
			fv.uf("bytes_of", []Sort{SInt}, ArrSort(SInt, SInt))
			fv.uf("runes_of", []Sort{SInt}, ArrSort(SInt, SInt))
			f := "bytes_of"
			if et.Kind() == types.Int32 {
				f = "runes_of"
			}
			fv.m.heapSetAt(st, k, r, Store(h, r, App(f, v.C[0])))
		}
		return Val{T: x.Type(), C: []string{r, "0", ln}}
	}
	if _, ok := from.(*types.Slice); ok && tIsB && tb.Info()&types.IsString != 0 {
		r := fv.ctx.Fresh("str_of_slice", SInt)
		et := from.(*types.Slice).Elem().Underlying().(*types.Basic)
		if et.Kind() == types.Int32 {
			fv.ctx.Assume(Eq(App("srunes", r), v.C[2]))
		} else {
			fv.ctx.Assume(Eq(App("slen", r), v.C[2]))
		}
		return Val{T: x.Type(), C: []string{r}}
	}
	if len(v.C) == len(fv.m.Flatten(x.Type())) {
		return Val{T: x.Type(), C: v.C}
	}
	r := fv.m.FreshVal("conv", x.Type())
	fv.typeFacts(r, st, reach)
	return r
}

func (fv *FuncVC) sliceOp(fr *Frame, st *State, reach string, x *ssa.Slice) Val {
	xv := fv.get(fr, x.X)
	var lo, hi string
	if x.Low != nil {
		lo = fv.get(fr, x.Low).One()
	} else {
		lo = "0"
	}
	switch t := x.X.Type().Underlying().(type) {
	case *types.Basic: // string
		ln := App("slen", xv.One())
		if x.High != nil {
			hi = fv.get(fr, x.High).One()
		} else {
			hi = ln
		}
		if fv.nopanic {
			fv.oblige("safe:slice", "string", reach, fmt.Sprintf("(and (<= 0 %s) (<= %s %s) (<= %s %s))", lo, lo, hi, hi, ln), "slice bounds in range", fv.pos(x.Pos()))
		}
		if lo == "0" && hi == ln {
			return Val{T: x.Type(), C: xv.C}
		}
		r := App("ssub", xv.One(), lo, hi)
		fv.ctx.Assume(Implies(fmt.Sprintf("(and (<= 0 %s) (<= %s %s) (<= %s %s))", lo, lo, hi, hi, ln), Eq(App("slen", r), fmt.Sprintf("(- %s %s)", hi, lo))))
		return Val{T: x.Type(), C: []string{r}}
	case *types.Slice:
		ln := xv.C[2]
		if x.High != nil {
			hi = fv.get(fr, x.High).One()
		} else {
			hi = ln
		}
		if fv.nopanic {
			// Go allows hi up to cap; we only know len (A2), so require hi <= len unless hi is len itself
			fv.oblige("safe:slice", "", reach, fmt.Sprintf("(and (<= 0 %s) (<= %s %s) (<= %s %s))", lo, lo, hi, hi, ln), "slice bounds in range (checked against len, not cap)", fv.pos(x.Pos()))
		}
		return Val{T: x.Type(), C: []string{xv.C[0], simplifyAdd(xv.C[1], lo), simplifySub(hi, lo)}}
	case *types.Pointer:
		at := t.Elem().Underlying().(*types.Array)
		ln := IntLit(at.Len())
		if x.High != nil {
			hi = fv.get(fr, x.High).One()
		} else {
			hi = ln
		}
		return Val{T: x.Type(), C: []string{xv.One(), lo, simplifySub(hi, lo)}}
	}
	engineErr("slice of %v", x.X.Type())
	return Val{}
}

func simplifyAdd(a, b string) string {
	if a == "0" {
		return b
	}
	if b == "0" {
		return a
	}
	return fmt.Sprintf("(+ %s %s)", a, b)
}

func simplifySub(a, b string) string {
	if b == "0" {
		return a
	}
	return fmt.Sprintf("(- %s %s)", a, b)
}

func (fv *FuncVC) implementsTerm(tag string, iface types.Type) string {
	it := iface.Underlying().(*types.Interface)
	if it.NumMethods() == 0 {
		return Not(Eq(tag, "0"))
	}
	// known type ids that implement it (all types registered so far + module implementers)
	name := "impl$" + fv.m.TypeKey(iface)
	if !fv.ctx.declared[name] {
		fv.ctx.Decl(name, []Sort{SInt}, SBool)
		fv.ctx.Assume(Not(App(name, "0")))
	}
	for _, t := range fv.v.Implementers(iface) {
		key := name + "/" + types.TypeString(t, fv.m.qual)
		if !fv.ctx.declared[key] {
			fv.ctx.declared[key] = true
			fv.ctx.Assume(App(name, fv.typeID(t)))
		}
	}
	return App(name, tag)
}

func (fv *FuncVC) typeAssert(fr *Frame, st *State, reach string, x *ssa.TypeAssert) Val {
	xv := fv.get(fr, x.X)
	tag, pay := xv.C[0], xv.C[1]
	var okT string
	var res Val
	if _, isIface := x.AssertedType.Underlying().(*types.Interface); isIface {
		okT = fv.implementsTerm(tag, x.AssertedType)
		// static knowledge: if the source interface type's implementers all implement the target
		res = Val{T: x.AssertedType, C: []string{tag, pay}}
		fv.noteAssertImpl(x, tag)
	} else {
		okT = Eq(tag, fv.typeID(x.AssertedType))
		// also: a concrete type that does not implement a module interface is excluded by ifaceFacts
		res = fv.unbox(st, pay, x.AssertedType)
		res.T = x.AssertedType
		nv := fv.m.FreshVal("assert", x.AssertedType)
		for j := range nv.C {
			fv.ctx.Assume(Implies(okT, Eq(nv.C[j], res.C[j])))
		}
		fv.typeFacts(nv, st, reach)
		res = nv
	}
	if x.CommaOk {
		zero := fv.m.Zero(x.AssertedType)
		cs := make([]string, len(res.C))
		for j := range cs {
			cs[j] = Ite(okT, res.C[j], zero.C[j])
		}
		return Val{T: x.Type(), C: append(cs, okT)}
	}
	if fv.nopanic {
		fv.oblige("safe:assert", "", reach, okT, fmt.Sprintf("type assertion to %s cannot fail", types.TypeString(x.AssertedType, nil)), fv.pos(x.Pos()))
	} else {
		fv.ctx.Assume(Implies(reach, okT))
	}
	return res
}

// noteAssertImpl: for assertions to interface types from a value whose dynamic type id is known
// to be one of the module implementers, add impl facts for those that implement the target.
func (fv *FuncVC) noteAssertImpl(x *ssa.TypeAssert, tag string) {
	it := x.AssertedType.Underlying().(*types.Interface)
	name := "impl$" + fv.m.TypeKey(x.AssertedType)
	// every type id registered so far: decide by go/types
	for key, id := range fv.ctx.typeIDs {
		_ = key
		_ = id
	}
	_ = it
	_ = name
}

// globalMapFacts: a package-level map initialised by a composite literal with constant keys and
// never written outside init has exactly the literal's content (facts about the initial heap).
func (fv *FuncVC) globalMapFacts(g *ssa.Global, gname string, mt *types.Map) {
	fv.v.scanGlobalMutation()
	if fv.v.globalMutated[g] {
		return
	}
	initFn := g.Pkg.Func("init")
	if initFn == nil {
		return
	}
	var mm *ssa.MakeMap
	for _, b := range initFn.Blocks {
		for _, in := range b.Instrs {
			if st, ok := in.(*ssa.Store); ok && st.Addr == g {
				if m, ok := st.Val.(*ssa.MakeMap); ok {
					mm = m
				} else {
					return
				}
			}
		}
	}
	if mm == nil {
		return
	}
	init0 := &State{heap: map[string]string{}, epoch: 0, cnt: "cnt0", ghost: map[string]Val{}}
	mref := Select(fv.m.heapGet(init0, fv.m.CellKeys(mt)[0]), gname)
	fv.ctx.Assume(fmt.Sprintf("(and (> %s 0) (< %s cnt0))", mref, mref))
	dom := Select(fv.m.heapGet(init0, fv.m.MapDomKey(mt)), mref)
	var keys []string
	for _, b := range initFn.Blocks {
		for _, in := range b.Instrs {
			mu, ok := in.(*ssa.MapUpdate)
			if !ok || mu.Map != mm {
				continue
			}
			kc, ok := mu.Key.(*ssa.Const)
			if !ok {
				return
			}
			k := fv.mapKeyTerm(fv.constVal(kc))
			keys = append(keys, k)
			if vc, ok := mu.Value.(*ssa.Const); ok {
				vv := fv.constVal(vc)
				for j, vk := range fv.m.MapValKeys(mt) {
					fv.ctx.Assume(Eq(Select(Select(fv.m.heapGet(init0, vk), mref), k), vv.C[j]))
				}
			} else {
				// non-constant values: at least record non-nil for function / interface values
				for _, vk := range fv.m.MapValKeys(mt)[:1] {
					switch mt.Elem().Underlying().(type) {
					case *types.Signature, *types.Interface, *types.Pointer:
						fv.ctx.Assume(Not(Eq(Select(Select(fv.m.heapGet(init0, vk), mref), k), "0")))
					}
				}
			}
		}
	}
	var ds []string
	for _, k := range keys {
		ds = append(ds, Eq("k", k))
	}
	fv.ctx.Assume(fmt.Sprintf("(forall ((k %s)) (! (= (select %s k) %s) :pattern ((select %s k))))", fv.m.keySort(mt.Key()), dom, Or(ds...), dom))
	fv.assumed[fmt.Sprintf("global map %s.%s holds exactly its literal (%d keys); checked: never written outside init", g.Pkg.Pkg.Path(), g.Name(), len(keys))] = true
}

// sidx: element index of a slice = offset + i, kept behind an uninterpreted symbol so that
// quantifier patterns match on it (arithmetic inside patterns does not E-match reliably).
func sidx(off, i string) string {
	if off == "0" {
		return i
	}
	return "(sidx " + off + " " + i + ")"
}

func isConstVal(v ssa.Value) bool { _, ok := v.(*ssa.Const); return ok }

// globalConstFact: a package-level variable initialised with a constant and never assigned
// outside init holds that constant (fact about the initial heap).
func (fv *FuncVC) globalConstFact(g *ssa.Global, gname string, pt types.Type) {
	fv.v.scanGlobalMutation()
	if fv.v.globalMutated[g] {
		return
	}
	initFn := g.Pkg.Func("init")
	if initFn == nil {
		return
	}
	var cv *ssa.Const
	n := 0
	for _, b := range initFn.Blocks {
		for _, in := range b.Instrs {
			if st, ok := in.(*ssa.Store); ok && st.Addr == g {
				n++
				if c, ok := st.Val.(*ssa.Const); ok {
					cv = c
				}
			}
		}
	}
	if n != 1 || cv == nil {
		return
	}
	init0 := &State{heap: map[string]string{}, epoch: 0, cnt: "cnt0", ghost: map[string]Val{}}
	val := fv.constVal(cv)
	for j, k := range fv.m.CellKeys(pt) {
		if j < len(val.C) {
			fv.ctx.Assume(Eq(Select(fv.m.heapGet(init0, k), gname), val.C[j]))
		}
	}
	fv.assumed[fmt.Sprintf("global %s.%s holds its initial constant; checked: never assigned outside init", g.Pkg.Pkg.Path(), g.Name())] = true
}

type immuneCell struct {
	ref string
	t   types.Type
}

// cellOnlyAssignedHere: every use of the cell's address is a load or a store in the allocating function, or a
// capture by a closure whose body only loads the captured variable
func cellOnlyAssignedHere(a *ssa.Alloc) bool {
	if a.Referrers() == nil {
		return true
	}
	for _, r := range *a.Referrers() {
		switch x := r.(type) {
		case *ssa.Store:
			if x.Val == ssa.Value(a) {
				return false // the address itself is stored somewhere
			}
		case *ssa.UnOp, *ssa.DebugRef:
		case *ssa.MakeClosure:
			fn := x.Fn.(*ssa.Function)
			for i, b := range x.Bindings {
				if b != ssa.Value(a) {
					continue
				}
				fvr := fn.FreeVars[i]
				if fvr.Referrers() == nil {
					continue
				}
				for _, fr := range *fvr.Referrers() {
					switch y := fr.(type) {
					case *ssa.UnOp, *ssa.DebugRef:
					case *ssa.Store:
						_ = y
						return false
					default:
						return false // passed on (nested closure, call argument)
					}
				}
			}
		default:
			return false
		}
	}
	return true
}

// pureTuple: one combination of heap versions a spec function (with a reads clause) was applied to
type pureTuple struct {
	base      string
	keys      []HeapKey
	heapTerms []string
	sorts     []Sort // argument sorts followed by heap sorts
	argKinds  []string
	rt        types.Type
}
