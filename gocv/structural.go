package main

// Structural (frame / call-graph / syntactic) obligations, decided by analyses over the SSA of
// the whole module rather than by a solver.

import (
	"go/constant"
	"encoding/json"
	"fmt"
	"go/types"
	"sort"
	"strings"

	"golang.org/x/tools/go/ssa"
	"golang.org/x/tools/go/ssa/ssautil"
)

type StructResult struct {
	Name, Kind, Text, Detail string
	OK                       bool
}

func (v *Verifier) runStructural(cfg PropConfig) []StructResult {
	var out []StructResult
	for _, sc := range cfg.Structural {
		out = append(out, v.structural(cfg, sc)...)
	}
	return out
}

func (v *Verifier) moduleFunctions(includeTests bool) []*ssa.Function {
	var fns []*ssa.Function
	for fn := range ssautil.AllFunctions(v.prog) {
		p := pkgOf(fn)
		if p == nil || !isModulePkg(p) {
			continue
		}
		if !includeTests && isTestPkgPath(p.Path()) {
			continue
		}
		if len(fn.Blocks) == 0 {
			continue
		}
		fns = append(fns, fn)
	}
	sort.Slice(fns, func(i, j int) bool { return fns[i].String() < fns[j].String() })
	return fns
}

func isTestPkgPath(path string) bool {
	return strings.HasSuffix(path, "/test") || strings.Contains(path, "/test/") || strings.HasSuffix(path, "_test") || strings.Contains(path, "/cmd/")
}

func shortKey(fn *ssa.Function) string {
	return strings.TrimPrefix(funcKey(fn), modulePath+"/")
}

func matchAny(key string, allowed []string) bool {
	for _, a := range allowed {
		if a == key {
			return true
		}
		if strings.HasSuffix(a, "*") && strings.HasPrefix(key, strings.TrimSuffix(a, "*")) {
			return true
		}
	}
	return false
}

func (v *Verifier) structural(cfg PropConfig, sc StructuralCheck) []StructResult {
	name := fmt.Sprintf("%s/structural/%s[%s]", cfg.ID, sc.Kind, sc.Name)
	fv := NewFuncVC(v, nil, nil, cfg.ID)
	switch sc.Kind {
	case "callback_frame":
		// every function value of this (named) function type that the module creates writes only
		// what the type's callback contract declares
		var a struct {
			Type string `json:"type"`
		}
		json.Unmarshal(sc.Args, &a)
		t, err := v.ResolveType(a.Type, nil)
		if err != nil {
			engineErr("structural %s: %v", sc.Name, err)
		}
		n := types.Unalias(t).(*types.Named)
		con := v.ifaceCon[n.Obj().Pkg().Path()+"."+n.Obj().Name()+".call"]
		if con == nil {
			engineErr("structural %s: no callback contract for %s", sc.Name, a.Type)
		}
		allowed := map[string]bool{}
		for _, it := range con.Assigns {
			switch {
			case it.TypeT != "":
				for _, hk := range fv.readKeys(qualifiedKeySpec(fv, it, n.Obj().Pkg()), n.Obj().Pkg()) {
					allowed[hk.Key] = true
				}
			default:
				if sel, ok := it.Expr.(*SSel); ok {
					if id, ok := sel.X.(*SIdent); ok && id.Name == "ghost" {
						if g := v.ghosts[sel.Name]; g != nil {
							for _, hk := range fv.ghostKeys(g) {
								allowed[hk.Key] = true
							}
						}
					}
				}
			}
		}
		v.buildAddrTaken()
		var bad []string
		nf := 0
		for _, f := range effIdx.addrTaken[sigKey(n.Underlying().(*types.Signature))] {
			if p := pkgOf(f); p != nil && isTestPkgPath(p.Path()) {
				continue
			}
			nf++
			ks, all := v.Effects(fv, f)
			if all {
				bad = append(bad, shortKey(f)+": unknown writes")
			}
			for _, k := range ks {
				if isModuleKey(k) && !allowed[k] {
					bad = append(bad, shortKey(f)+" writes "+k)
				}
			}
		}
		sort.Strings(bad)
		return []StructResult{{Name: name, Kind: "frame", Text: fmt.Sprintf("every %s value created in the module writes only what its callback contract assigns", a.Type),
			Detail: fmt.Sprintf("%d function values checked; %s", nf, strings.Join(uniq(bad), "; ")), OK: len(bad) == 0}}
	case "implementers_under_contract":
		// every (non-test) implementer of the interface method in the module is verified against the
		// interface method contract: its method carries `implements <contract>` and is listed among the
		// property's functions under contract
		var a struct {
			Iface    string `json:"iface"`
			Method   string `json:"method"`
			Contract string `json:"contract"`
		}
		json.Unmarshal(sc.Args, &a)
		t, err := v.ResolveType(a.Iface, nil)
		if err != nil {
			engineErr("structural %s: %v", sc.Name, err)
		}
		listed := map[string]bool{}
		for _, f := range cfg.Functions {
			listed[modulePath+"/"+f] = true
		}
		var bad []string
		n := 0
		for _, it := range v.Implementers(t) {
			if isTestType(it) {
				continue
			}
			ms := v.prog.MethodSets.MethodSet(it)
			var sel *types.Selection
			for i := 0; i < ms.Len(); i++ {
				if ms.At(i).Obj().Name() == a.Method {
					sel = ms.At(i)
				}
			}
			if sel == nil {
				continue
			}
			fn := v.prog.MethodValue(sel)
			if fn == nil {
				continue
			}
			if fn.Synthetic != "" {
				// promoted method: the declaring method is what counts
				if obj, ok := sel.Obj().(*types.Func); ok {
					if d := v.prog.FuncValue(obj); d != nil {
						fn = d
					}
				}
			}
			n++
			con := v.contracts[fn]
			ok := false
			if con != nil {
				for _, im := range con.Implements {
					if im == a.Contract || modulePath+"/"+im == a.Contract || im == modulePath+"/"+a.Contract {
						ok = true
					}
				}
			}
			if !ok {
				bad = append(bad, shortKey(fn)+": no contract that implements "+a.Contract)
			} else if !listed[funcKey(fn)] {
				bad = append(bad, shortKey(fn)+": not among the property's functions under contract")
			}
		}
		sort.Strings(bad)
		return []StructResult{{Name: name, Kind: "refine", Text: fmt.Sprintf("every implementer of %s.%s in the module is verified against the interface contract %s", a.Iface, a.Method, a.Contract),
			Detail: fmt.Sprintf("%d implementers; %s", n, strings.Join(uniq(bad), "; ")), OK: len(bad) == 0 && n > 0}}
	case "forbidden_calls":
		// no function of the module (outside the excluded packages) calls one of these functions / starts a goroutine
		var a struct {
			Prefixes    []string `json:"prefixes"`
			ExcludePkgs []string `json:"exclude_pkgs"`
			Goroutines  bool     `json:"goroutines"`
			Allowed     []string `json:"allowed"`
		}
		json.Unmarshal(sc.Args, &a)
		var bad []string
		n := 0
		for _, fn := range v.moduleFunctions(false) {
			p := pkgOf(fn)
			skip := p == nil
			for _, ex := range a.ExcludePkgs {
				if p != nil && strings.Contains(p.Path(), ex) {
					skip = true
				}
			}
			if skip || matchAny(shortKey(fn), a.Allowed) {
				continue
			}
			n++
			for _, b := range fn.Blocks {
				for _, in := range b.Instrs {
					if _, isGo := in.(*ssa.Go); isGo && a.Goroutines {
						bad = append(bad, shortKey(fn)+" starts a goroutine")
					}
					var ops []*ssa.Value
					for _, op := range in.Operands(ops) {
						if op == nil || *op == nil {
							continue
						}
						f, ok := (*op).(*ssa.Function)
						if !ok {
							continue
						}
						name := f.String()
						if o := f.Origin(); o != nil {
							name = o.String()
						}
						for _, pre := range a.Prefixes {
							if strings.HasPrefix(name, pre) {
								bad = append(bad, shortKey(fn)+" uses "+name)
							}
						}
					}
				}
			}
		}
		sort.Strings(bad)
		return []StructResult{{Name: name, Kind: "frame", Text: "no function in scope uses " + strings.Join(a.Prefixes, ", ") + map[bool]string{true: " or starts a goroutine", false: ""}[a.Goroutines],
			Detail: fmt.Sprintf("%d functions scanned; %s", n, strings.Join(uniq(bad), "; ")), OK: len(bad) == 0 && n > 0}}
	case "call_arg_values":
		// every call of the function (static, or through an interface it implements) passes, as argument i, one
		// of the allowed constants
		var a struct {
			Callee  string   `json:"callee"`
			Arg     int      `json:"arg"` // index among the call's arguments (receiver = 0 for methods)
			Allowed []string `json:"allowed"`
			Callers []string `json:"callers"` // optional: only call sites in these functions (each must have at least one)
		}
		json.Unmarshal(sc.Args, &a)
		callee := v.funcsByKey[modulePath+"/"+a.Callee]
		if callee == nil {
			engineErr("structural %s: function %s not found in /repo (renamed or removed?)", sc.Name, a.Callee)
		}
		var bad []string
		n := 0
		sitesIn := map[string]int{}
		for _, fn := range v.moduleFunctions(false) {
			if fn.Synthetic != "" {
				continue
			}
			if len(a.Callers) > 0 && !matchAny(shortKey(fn), a.Callers) {
				continue
			}
			for _, b := range fn.Blocks {
				for _, in := range b.Instrs {
					ci, ok := in.(ssa.CallInstruction)
					if !ok {
						continue
					}
					cc := ci.Common()
					var args []ssa.Value
					if cc.StaticCallee() == callee && a.Arg >= len(cc.Args) {
						bad = append(bad, fmt.Sprintf("%s calls it without argument %d (signature changed?)", shortKey(fn), a.Arg))
						n++
						continue
					}
					switch {
					case cc.StaticCallee() == callee:
						args = cc.Args
					case cc.IsInvoke() && callee.Signature.Recv() != nil && cc.Method.Name() == callee.Name():
						if it, ok := cc.Value.Type().Underlying().(*types.Interface); ok && types.Implements(callee.Signature.Recv().Type(), it) {
							args = append([]ssa.Value{cc.Value}, cc.Args...)
						}
					}
					if args == nil || a.Arg >= len(args) {
						continue
					}
					n++
					sitesIn[shortKey(fn)]++
					c, isC := args[a.Arg].(*ssa.Const)
					val := ""
					if isC && c.Value != nil {
						val = strings.Trim(c.Value.ExactString(), "\"")
					}
					okV := false
					for _, al := range a.Allowed {
						if isC && val == al {
							okV = true
						}
						// "param:<name>": the caller hands on its own parameter of that name unchanged
						if pn, isP := strings.CutPrefix(al, "param:"); isP {
							if pv, ok := args[a.Arg].(*ssa.Parameter); ok && pv.Name() == pn {
								okV = true
							}
						}
					}
					if !okV {
						what := "a non-constant value"
						if isC {
							what = fmt.Sprintf("%q", val)
						}
						bad = append(bad, fmt.Sprintf("%s passes %s", shortKey(fn), what))
					}
				}
			}
		}
		for _, c := range a.Callers {
			if sitesIn[c] == 0 {
				bad = append(bad, fmt.Sprintf("%s no longer calls it with such an argument", c))
			}
		}
		sort.Strings(bad)
		where := ""
		if len(a.Callers) > 0 {
			where = " in " + strings.Join(a.Callers, ", ")
		}
		return []StructResult{{Name: name, Kind: "frame", Text: fmt.Sprintf("every call of %s%s passes one of %v as argument %d", a.Callee, where, a.Allowed, a.Arg),
			Detail: fmt.Sprintf("%d call sites; %s", n, strings.Join(uniq(bad), "; ")), OK: len(bad) == 0 && n > 0}}
	case "map_keys_written":
		// the constant string keys under which the listed functions (and the closures inside them) store into or delete
		// from string-keyed maps stay outside the forbidden set (key frame of the generic-JSON migrations)
		var a struct {
			FuncPrefixes []string            `json:"func_prefixes"`
			Forbidden    []string            `json:"forbidden"`
			AllowedIn    map[string][]string `json:"allowed_in"` // key -> functions that may write it
		}
		json.Unmarshal(sc.Args, &a)
		var bad []string
		n, nw := 0, 0
		keysSeen := map[string]bool{}
		for _, fn := range v.moduleFunctions(false) {
			k := shortKey(fn)
			if k == "" && fn.Parent() != nil {
				k = shortKey(fn.Parent())
			}
			in := false
			for _, p := range a.FuncPrefixes {
				if strings.HasPrefix(k, p) {
					in = true
				}
			}
			if !in {
				continue
			}
			n++
			check := func(key ssa.Value, what string) {
				c, ok := key.(*ssa.Const)
				if !ok || c.Value == nil || c.Value.Kind() != constant.String {
					// a computed key: could be any key
					if _, isStr := key.Type().Underlying().(*types.Basic); isStr {
						// keys copied from the definition itself (iteration keys, UUIDs) are not literals of the forbidden set; not decided
					}
					return
				}
				nw++
				kv := constant.StringVal(c.Value)
				keysSeen[kv] = true
				for _, f := range a.Forbidden {
					if kv == f && !matchAny(k, a.AllowedIn[f]) {
						bad = append(bad, fmt.Sprintf("%s %s key %q", k, what, kv))
					}
				}
			}
			for _, b := range fn.Blocks {
				for _, in := range b.Instrs {
					switch x := in.(type) {
					case *ssa.MapUpdate:
						check(x.Key, "stores under")
					case *ssa.Call:
						if bi, ok := x.Call.Value.(*ssa.Builtin); ok && bi.Name() == "delete" {
							check(x.Call.Args[1], "deletes")
						}
					}
				}
			}
		}
		sort.Strings(bad)
		ks := make([]string, 0, len(keysSeen))
		for k := range keysSeen {
			ks = append(ks, k)
		}
		sort.Strings(ks)
		return []StructResult{{Name: name, Kind: "frame", Text: fmt.Sprintf("functions %v never store under or delete the keys %v of a JSON object", a.FuncPrefixes, a.Forbidden),
			Detail: fmt.Sprintf("%d functions, %d constant-key writes (keys: %s); %s", n, nw, strings.Join(ks, ", "), strings.Join(uniq(bad), "; ")), OK: len(bad) == 0 && n > 0}}
	case "typestate":
		return v.typestate(cfg, sc)
	case "maporder":
		return v.mapOrder(cfg, sc)
	case "result_coupling":
		return v.resultCoupling(cfg, sc)
	case "step_run_pairing":
		return v.stepRunPairing(cfg, sc)
	case "codec_coverage":
		return v.codecCoverage(cfg, sc)
	case "clone_isolation":
		return v.cloneIsolation(cfg, sc)
	case "immutable_fields":
		return v.immutableFields(cfg, sc)
	case "event_logged_once":
		return v.eventLoggedOnce(cfg, sc)
	case "globals_init_only":
		return v.globalsInitOnly(cfg, sc)
	case "callers_verified":
		return v.callersVerified(cfg, sc)
	case "reslice_append":
		return v.resliceAppend(cfg, sc)
	case "typeinv_writers":
		return v.typeInvWritersCheck(cfg, sc)
	case "field_const_writes":
		return v.fieldConstWrites(cfg, sc)
	case "mutator_on_fresh":
		return v.mutatorOnFresh(cfg, sc)
	case "callers_subset":
		var a struct {
			Callee  string   `json:"callee"`
			Allowed []string `json:"allowed"`
			Roots   []string `json:"roots"` // optional: only callers reachable from these roots count
			RootMethodNames []string `json:"root_method_names"`
		}
		json.Unmarshal(sc.Args, &a)
		callee := v.funcsByKey[modulePath+"/"+a.Callee]
		if callee == nil {
			engineErr("structural %s: unknown function %s", sc.Name, a.Callee)
		}
		var reach map[*ssa.Function]bool
		if len(a.Roots) > 0 || len(a.RootMethodNames) > 0 {
			reach = v.reachableFrom(sc.Name, a.Roots, a.RootMethodNames)
		}
		var bad, seen []string
		for _, fn := range v.moduleFunctions(false) {
			if reach != nil && !reach[fn] {
				continue
			}
			if v.callsFunction(fn, callee) {
				k := shortKey(fn)
				if k == "" && fn.Origin() != nil {
					k = shortKey(fn.Origin()) // instantiation of a generic function
				}
				if k == "" && fn.Synthetic != "" {
					continue // wrapper (bound method, promoted method): its own callers are found through it
				}
				if i := strings.Index(k, "["); i > 0 && strings.HasSuffix(k, "]") {
					k = k[:i]
				}
				seen = append(seen, k)
				if !matchAny(k, a.Allowed) {
					bad = append(bad, k)
				}
			}
		}
		return []StructResult{{Name: name, Kind: "frame", Text: fmt.Sprintf("callers(%s) within the allowed set", a.Callee),
			Detail: fmt.Sprintf("callers found: %s; not allowed: %s", strings.Join(seen, ", "), strings.Join(bad, ", ")), OK: len(bad) == 0}}
	case "writers_subset":
		var a struct {
			Field   string   `json:"field"` // pkg.T::field
			Allowed []string `json:"allowed"`
		}
		json.Unmarshal(sc.Args, &a)
		i := strings.Index(a.Field, "::")
		t, err := v.ResolveType(a.Field[:i], nil)
		if err != nil {
			engineErr("structural %s: %v", sc.Name, err)
		}
		fname := a.Field[i+2:]
		var bad, seen []string
		for _, fn := range v.moduleFunctions(false) {
			if v.writesField(fn, t, fname) {
				k := shortKey(fn)
				seen = append(seen, k)
				if !matchAny(k, a.Allowed) {
					bad = append(bad, k)
				}
			}
		}
		return []StructResult{{Name: name, Kind: "frame", Text: fmt.Sprintf("writers(%s) within the allowed set", a.Field),
			Detail: fmt.Sprintf("writers found: %s; not allowed: %s", strings.Join(seen, ", "), strings.Join(bad, ", ")), OK: len(bad) == 0}}
	case "allocs_subset":
		// objects of this struct type are only allocated (composite literal / new) in the allowed functions
		var a struct {
			Type    string   `json:"type"`
			Allowed []string `json:"allowed"`
		}
		json.Unmarshal(sc.Args, &a)
		t, err := v.ResolveType(a.Type, nil)
		if err != nil {
			engineErr("structural %s: %v", sc.Name, err)
		}
		var bad, seen []string
		for _, fn := range v.moduleFunctions(false) {
			found := false
			for _, b := range fn.Blocks {
				for _, in := range b.Instrs {
					if al, ok := in.(*ssa.Alloc); ok && types.Identical(al.Type().(*types.Pointer).Elem(), t) {
						found = true
					}
				}
			}
			if found {
				k := shortKey(fn)
				seen = append(seen, k)
				if !matchAny(k, a.Allowed) {
					bad = append(bad, k)
				}
			}
		}
		return []StructResult{{Name: name, Kind: "frame", Text: fmt.Sprintf("allocators(%s) within the allowed set", a.Type),
			Detail: fmt.Sprintf("allocating functions: %s; not allowed: %s", strings.Join(seen, ", "), strings.Join(bad, ", ")), OK: len(bad) == 0}}
	case "readers_reachable_subset":
		// every function that reads one of the fields AND is reachable (call graph) from the roots is allowed
		var a struct {
			Fields  []string `json:"fields"`
			Roots   []string `json:"roots"`
			RootMethodNames []string `json:"root_method_names"`
			Allowed []string `json:"allowed"`
		}
		json.Unmarshal(sc.Args, &a)
		reach := map[*ssa.Function]bool{}
		var work []*ssa.Function
		for _, r := range a.Roots {
			fn := v.funcsByKey[modulePath+"/"+r]
			if fn == nil {
				engineErr("structural %s: unknown root %s", sc.Name, r)
			}
			work = append(work, fn)
		}
		if len(a.RootMethodNames) > 0 {
			for _, fn := range v.moduleFunctions(false) {
				if fn.Signature.Recv() != nil {
					for _, n := range a.RootMethodNames {
						if fn.Name() == n {
							work = append(work, fn)
						}
					}
				}
			}
		}
		nroots := len(work)
		for len(work) > 0 {
			f := work[len(work)-1]
			work = work[:len(work)-1]
			if reach[f] {
				continue
			}
			reach[f] = true
			if p := pkgOf(f); p == nil || !isModulePkg(p) || isTestPkgPath(p.Path()) {
				continue // dependencies are not expanded (they cannot read module fields)
			}
			work = append(work, v.calleesOf(f)...)
		}
		var bad, seen []string
		for _, fspec := range a.Fields {
			i := strings.Index(fspec, "::")
			t, err := v.ResolveType(fspec[:i], nil)
			if err != nil {
				engineErr("structural %s: %v", sc.Name, err)
			}
			for _, fn := range v.moduleFunctions(false) {
				if !reach[fn] || !v.readsField(fn, t, fspec[i+2:]) {
					continue
				}
				k := shortKey(fn)
				seen = append(seen, k+" reads "+fspec)
				if !matchAny(k, a.Allowed) {
					bad = append(bad, k+" reads "+fspec)
				}
			}
		}
		sort.Strings(seen)
		sort.Strings(bad)
		return []StructResult{{Name: name, Kind: "frame", Text: fmt.Sprintf("readers of %s reachable from the context builders are within the allowed set", strings.Join(a.Fields, ", ")),
			Detail: fmt.Sprintf("%d roots, %d reachable functions; readers: %s; not allowed: %s", nroots, len(reach), strings.Join(uniq(seen), "; "), strings.Join(uniq(bad), "; ")), OK: len(bad) == 0}}
	case "return_slice":
		// on the paths where the boolean parameter is true, the returned value depends only on the allowed leaves
		var a struct {
			Func    string `json:"func"`
			Param   string `json:"when_param_true"`
			AllowCallExtract []struct {
				Call  string `json:"call"`
				Index int    `json:"extract"`
			} `json:"allowed_extracts"`
			AllowCalls []string `json:"allowed_calls"` // calls that are pure functions of their (checked) arguments
		}
		json.Unmarshal(sc.Args, &a)
		fn := v.funcsByKey[modulePath+"/"+a.Func]
		if fn == nil {
			engineErr("structural %s: unknown function %s", sc.Name, a.Func)
		}
		var param *ssa.Parameter
		for _, p := range fn.Params {
			if p.Name() == a.Param {
				param = p
			}
		}
		if param == nil {
			engineErr("structural %s: no parameter %s", sc.Name, a.Param)
		}
		var bad []string
		nret := 0
		for _, b := range fn.Blocks {
			ret, ok := b.Instrs[len(b.Instrs)-1].(*ssa.Return)
			if !ok || guardedBy(b, param, 1) {
				continue // returns only reachable when the parameter is false are not constrained
			}
			nret++
			seenV := map[ssa.Value]bool{}
			var walk func(val ssa.Value)
			walk = func(val ssa.Value) {
				if val == nil || seenV[val] {
					return
				}
				seenV[val] = true
				switch x := val.(type) {
				case *ssa.Const, *ssa.Global, *ssa.Function, *ssa.Builtin:
					return
				case *ssa.Extract:
					if call, ok := x.Tuple.(*ssa.Call); ok {
						cn := ""
						if sc := call.Call.StaticCallee(); sc != nil {
							cn = sc.Name()
						}
						for _, al := range a.AllowCallExtract {
							if al.Call == cn && al.Index == x.Index {
								return
							}
						}
					}
					bad = append(bad, fmt.Sprintf("depends on %s (%s)", x.Name(), x.String()))
				case *ssa.Call:
					cn := ""
					if sc := x.Call.StaticCallee(); sc != nil {
						cn = sc.Name()
					}
					okc := false
					for _, ac := range a.AllowCalls {
						if ac == cn {
							okc = true
						}
					}
					if !okc {
						bad = append(bad, fmt.Sprintf("depends on result of call %s", x.String()))
						return
					}
					for _, arg := range x.Call.Args {
						walk(arg)
					}
				case *ssa.Phi:
					for _, e := range x.Edges {
						walk(e)
					}
				case *ssa.Convert:
					walk(x.X)
				case *ssa.ChangeType:
					walk(x.X)
				case *ssa.MakeInterface:
					walk(x.X)
				case *ssa.Slice:
					walk(x.X)
				case *ssa.Alloc:
					// array literal for varargs: everything stored into it
					if x.Referrers() != nil {
						for _, ref := range *x.Referrers() {
							if ia, ok := ref.(*ssa.IndexAddr); ok && ia.Referrers() != nil {
								for _, r2 := range *ia.Referrers() {
									if st, ok := r2.(*ssa.Store); ok {
										walk(st.Val)
									}
								}
							}
						}
					}
				case *ssa.BinOp:
					walk(x.X)
					walk(x.Y)
				case *ssa.UnOp:
					if _, isGlobal := x.X.(*ssa.Global); isGlobal {
						return // package-level constant-like variable
					}
					bad = append(bad, fmt.Sprintf("depends on %s = %s", val.Name(), val.String()))
				default:
					bad = append(bad, fmt.Sprintf("depends on %s = %s", val.Name(), val.String()))
				}
			}
			for _, r := range ret.Results {
				walk(r)
			}
		}
		if nret == 0 {
			bad = append(bad, "no return point reachable with "+a.Param+" true")
		}
		return []StructResult{{Name: name, Kind: "dataflow", Text: fmt.Sprintf("%s: when %s is true the result depends only on the allowed leaves", a.Func, a.Param),
			Detail: fmt.Sprintf("%d guarded return points; %s", nret, strings.Join(uniq(bad), "; ")), OK: len(bad) == 0}}
	case "call_result_uses":
		// in func, the value returned by calls of `callee` is only used as the receiver/argument of the allowed functions
		var a struct {
			Func    string   `json:"func"`
			Callee  string   `json:"callee"`
			Allowed []string `json:"allowed_uses"`
		}
		json.Unmarshal(sc.Args, &a)
		fn := v.funcsByKey[modulePath+"/"+a.Func]
		if fn == nil {
			engineErr("structural %s: unknown function %s", sc.Name, a.Func)
		}
		var bad []string
		ncalls := 0
		for _, b := range fn.Blocks {
			for _, in := range b.Instrs {
				call, ok := in.(*ssa.Call)
				if !ok {
					continue
				}
				sc2 := call.Call.StaticCallee()
				if sc2 == nil || sc2.Name() != a.Callee {
					continue
				}
				ncalls++
				if call.Referrers() == nil {
					continue
				}
				for _, ref := range *call.Referrers() {
					switch r := ref.(type) {
					case *ssa.DebugRef:
					case *ssa.Call:
						rc := r.Call.StaticCallee()
						okUse := false
						if rc != nil {
							for _, al := range a.Allowed {
								if rc.Name() == al {
									okUse = true
								}
							}
						}
						if !okUse {
							bad = append(bad, "used by "+r.String())
						}
					default:
						bad = append(bad, fmt.Sprintf("used by %v", ref))
					}
				}
			}
		}
		return []StructResult{{Name: name, Kind: "dataflow", Text: fmt.Sprintf("%s: results of %s() are only passed to %s", a.Func, a.Callee, strings.Join(a.Allowed, "/")),
			Detail: fmt.Sprintf("%d calls; %s", ncalls, strings.Join(bad, "; ")), OK: len(bad) == 0 && ncalls > 0}}
	case "effects_exclude":
		// the transitive write set of a function does not contain the given fields
		var a struct {
			Func   string   `json:"func"`
			Fields []string `json:"fields"`
		}
		json.Unmarshal(sc.Args, &a)
		fn := v.funcsByKey[modulePath+"/"+a.Func]
		if fn == nil {
			engineErr("structural %s: unknown function %s", sc.Name, a.Func)
		}
		ks, all := v.BodyEffects(fv, fn)
		have := map[string]bool{}
		for _, k := range ks {
			have[k] = true
		}
		var bad []string
		if all {
			bad = append(bad, "unknown writes")
		}
		for _, f := range a.Fields {
			for _, hk := range fv.readKeys(f, nil) {
				if have[hk.Key] {
					bad = append(bad, hk.Key)
				}
			}
		}
		return []StructResult{{Name: name, Kind: "frame", Text: fmt.Sprintf("effects(%s) exclude %s", a.Func, strings.Join(a.Fields, ", ")),
			Detail: "written: " + strings.Join(uniq(bad), ", "), OK: len(bad) == 0}}
	}
	engineErr("unknown structural check kind %q", sc.Kind)
	return nil
}

func uniq(xs []string) []string {
	var out []string
	for i, x := range xs {
		if i == 0 || x != xs[i-1] {
			out = append(out, x)
		}
	}
	return out
}

// callsFunction: fn contains a call that may reach callee (static call, or invoke of a method
// callee implements).
func (v *Verifier) callsFunction(fn, callee *ssa.Function) bool {
	return v.callsFunctionX(fn, callee, map[*ssa.Function]bool{})
}

func (v *Verifier) callsFunctionX(fn, callee *ssa.Function, seen map[*ssa.Function]bool) bool {
	if seen[fn] {
		return false
	}
	seen[fn] = true
	for _, b := range fn.Blocks {
		for _, in := range b.Instrs {
			ci, ok := in.(ssa.CallInstruction)
			if !ok {
				// function value taken: counts as a (potential) call
				var ops []*ssa.Value
				for _, op := range in.Operands(ops) {
					if op != nil && *op == ssa.Value(callee) {
						return true
					}
				}
				continue
			}
			cc := ci.Common()
			if sc := cc.StaticCallee(); sc != nil {
				if sc == callee || sc.Origin() == callee {
					return true
				}
				// synthetic wrappers (promoted methods, bound methods) are followed
				if sc.Synthetic != "" && len(sc.Blocks) > 0 && sc != fn && v.callsFunctionX(sc, callee, seen) {
					return true
				}
				continue
			}
			if cc.IsInvoke() && callee.Signature.Recv() != nil && cc.Method.Name() == callee.Name() {
				rt := callee.Signature.Recv().Type()
				if it, ok := cc.Value.Type().Underlying().(*types.Interface); ok && types.Implements(rt, it) {
					return true
				}
			}
			for _, a := range cc.Args {
				if a == ssa.Value(callee) {
					return true
				}
			}
		}
	}
	return false
}

func (v *Verifier) writesField(fn *ssa.Function, structT types.Type, field string) bool {
	for _, b := range fn.Blocks {
		for _, in := range b.Instrs {
			st, ok := in.(*ssa.Store)
			if !ok {
				continue
			}
			fa, ok := st.Addr.(*ssa.FieldAddr)
			if !ok {
				continue
			}
			t := fa.X.Type().Underlying().(*types.Pointer).Elem()
			if !types.Identical(t, structT) {
				continue
			}
			if t.Underlying().(*types.Struct).Field(fa.Field).Name() == field {
				// initialisation of an object allocated in this function is not a write to existing state
				if isLocalFresh(st.Addr) {
					continue
				}
				return true
			}
		}
	}
	return false
}

// guardedByTrue: block b is only reachable through the true edge of an `if param`.
func guardedByTrue(b *ssa.BasicBlock, param *ssa.Parameter) bool { return guardedBy(b, param, 0) }

// guardedBy: block b is only reachable through successor `succ` (0 = true edge, 1 = false edge) of an `if param`.
func guardedBy(b *ssa.BasicBlock, param *ssa.Parameter, succ int) bool {
	for d := b; d != nil; d = d.Idom() {
		id := d.Idom()
		if id == nil {
			break
		}
		if ifi, ok := id.Instrs[len(id.Instrs)-1].(*ssa.If); ok && ifi.Cond == ssa.Value(param) {
			if id.Succs[succ] == d && len(d.Preds) == 1 {
				return true
			}
		}
	}
	return false
}

// calleesOf: functions fn may call or hand out as values (static calls, interface implementers in the
// module, closures and function values, dynamic calls by signature).
func (v *Verifier) calleesOf(fn *ssa.Function) []*ssa.Function {
	var out []*ssa.Function
	for _, b := range fn.Blocks {
		for _, in := range b.Instrs {
			var ops []*ssa.Value
			for _, op := range in.Operands(ops) {
				if op == nil || *op == nil {
					continue
				}
				switch f := (*op).(type) {
				case *ssa.Function:
					out = append(out, f)
				case *ssa.MakeClosure:
					out = append(out, f.Fn.(*ssa.Function))
				}
			}
			ci, ok := in.(ssa.CallInstruction)
			if !ok {
				continue
			}
			cc := ci.Common()
			if cc.IsInvoke() {
				for _, t := range v.Implementers(cc.Value.Type()) {
					if isTestType(t) {
						continue
					}
					sel := v.prog.MethodSets.MethodSet(t).Lookup(cc.Method.Pkg(), cc.Method.Name())
					if sel == nil {
						continue
					}
					if m := v.prog.MethodValue(sel); m != nil {
						out = append(out, m)
					}
				}
				continue
			}
			if cc.StaticCallee() == nil {
				if _, isB := cc.Value.(*ssa.Builtin); !isB {
					v.buildAddrTaken()
					out = append(out, effIdx.addrTaken[sigKey(cc.Signature())]...)
				}
			}
		}
	}
	return out
}

func (v *Verifier) readsField(fn *ssa.Function, structT types.Type, field string) bool {
	for _, b := range fn.Blocks {
		for _, in := range b.Instrs {
			switch x := in.(type) {
			case *ssa.FieldAddr:
				t := x.X.Type().Underlying().(*types.Pointer).Elem()
				if !types.Identical(t, structT) || t.Underlying().(*types.Struct).Field(x.Field).Name() != field {
					continue
				}
				if x.Referrers() == nil {
					continue
				}
				for _, ref := range *x.Referrers() {
					if st, ok := ref.(*ssa.Store); ok && st.Addr == ssa.Value(x) {
						continue
					}
					if _, ok := ref.(*ssa.DebugRef); ok {
						continue
					}
					return true
				}
			case *ssa.Field:
				t := x.X.Type()
				if types.Identical(t, structT) && t.Underlying().(*types.Struct).Field(x.Field).Name() == field {
					return true
				}
			}
		}
	}
	return false
}

func (v *Verifier) reachableFrom(checkName string, roots []string, methodNames []string) map[*ssa.Function]bool {
	reach := map[*ssa.Function]bool{}
	var work []*ssa.Function
	for _, r := range roots {
		fn := v.funcsByKey[modulePath+"/"+r]
		if fn == nil {
			engineErr("structural %s: unknown root %s", checkName, r)
		}
		work = append(work, fn)
	}
	if len(methodNames) > 0 {
		for _, fn := range v.moduleFunctions(false) {
			if fn.Signature.Recv() != nil {
				for _, n := range methodNames {
					if fn.Name() == n {
						work = append(work, fn)
					}
				}
			}
		}
	}
	for len(work) > 0 {
		f := work[len(work)-1]
		work = work[:len(work)-1]
		if reach[f] {
			continue
		}
		reach[f] = true
		if p := pkgOf(f); p == nil || !isModulePkg(p) || isTestPkgPath(p.Path()) {
			continue
		}
		work = append(work, v.calleesOf(f)...)
	}
	return reach
}
