package main

// Structural (frame / call-graph / syntactic) obligations, decided by analyses over the SSA of
// the whole module rather than by a solver.

import (
	"encoding/json"
	"fmt"
	"go/types"
	"sort"
	"strings"

	"golang.org/x/tools/go/ssa"
	"golang.org/x/tools/go/ssa/ssautil"
)

type StructResult struct {
	Name, Kind, Text, Detail string
	OK                       bool
}

func (v *Verifier) runStructural(cfg PropConfig) []StructResult {
	var out []StructResult
	for _, sc := range cfg.Structural {
		out = append(out, v.structural(cfg, sc)...)
	}
	return out
}

func (v *Verifier) moduleFunctions(includeTests bool) []*ssa.Function {
	var fns []*ssa.Function
	for fn := range ssautil.AllFunctions(v.prog) {
		p := pkgOf(fn)
		if p == nil || !isModulePkg(p) {
			continue
		}
		if !includeTests && isTestPkgPath(p.Path()) {
			continue
		}
		if len(fn.Blocks) == 0 {
			continue
		}
		fns = append(fns, fn)
	}
	sort.Slice(fns, func(i, j int) bool { return fns[i].String() < fns[j].String() })
	return fns
}

func isTestPkgPath(path string) bool {
	return strings.HasSuffix(path, "/test") || strings.Contains(path, "/test/") || strings.HasSuffix(path, "_test") || strings.Contains(path, "/cmd/")
}

func shortKey(fn *ssa.Function) string {
	return strings.TrimPrefix(funcKey(fn), modulePath+"/")
}

func matchAny(key string, allowed []string) bool {
	for _, a := range allowed {
		if a == key {
			return true
		}
		if strings.HasSuffix(a, "*") && strings.HasPrefix(key, strings.TrimSuffix(a, "*")) {
			return true
		}
	}
	return false
}

func (v *Verifier) structural(cfg PropConfig, sc StructuralCheck) []StructResult {
	name := fmt.Sprintf("%s/structural/%s[%s]", cfg.ID, sc.Kind, sc.Name)
	fv := NewFuncVC(v, nil, nil, cfg.ID)
	switch sc.Kind {
	case "callback_frame":
		// every function value of this (named) function type that the module creates writes only
		// what the type's callback contract declares
		var a struct {
			Type string `json:"type"`
		}
		json.Unmarshal(sc.Args, &a)
		t, err := v.ResolveType(a.Type, nil)
		if err != nil {
			engineErr("structural %s: %v", sc.Name, err)
		}
		n := types.Unalias(t).(*types.Named)
		con := v.ifaceCon[n.Obj().Pkg().Path()+"."+n.Obj().Name()+".call"]
		if con == nil {
			engineErr("structural %s: no callback contract for %s", sc.Name, a.Type)
		}
		allowed := map[string]bool{}
		for _, it := range con.Assigns {
			switch {
			case it.TypeT != "":
				for _, hk := range fv.readKeys(fv.qualifyTypeText(it.TypeT, n.Obj().Pkg())+"::"+it.Field, n.Obj().Pkg()) {
					allowed[hk.Key] = true
				}
			default:
				if sel, ok := it.Expr.(*SSel); ok {
					if id, ok := sel.X.(*SIdent); ok && id.Name == "ghost" {
						if g := v.ghosts[sel.Name]; g != nil {
							for _, hk := range fv.ghostKeys(g) {
								allowed[hk.Key] = true
							}
						}
					}
				}
			}
		}
		v.buildAddrTaken()
		var bad []string
		nf := 0
		for _, f := range effIdx.addrTaken[sigKey(n.Underlying().(*types.Signature))] {
			if p := pkgOf(f); p != nil && isTestPkgPath(p.Path()) {
				continue
			}
			nf++
			ks, all := v.Effects(fv, f)
			if all {
				bad = append(bad, shortKey(f)+": unknown writes")
			}
			for _, k := range ks {
				if isModuleKey(k) && !allowed[k] {
					bad = append(bad, shortKey(f)+" writes "+k)
				}
			}
		}
		sort.Strings(bad)
		return []StructResult{{Name: name, Kind: "frame", Text: fmt.Sprintf("every %s value created in the module writes only what its callback contract assigns", a.Type),
			Detail: fmt.Sprintf("%d function values checked; %s", nf, strings.Join(uniq(bad), "; ")), OK: len(bad) == 0}}
	case "callers_subset":
		var a struct {
			Callee  string   `json:"callee"`
			Allowed []string `json:"allowed"`
		}
		json.Unmarshal(sc.Args, &a)
		callee := v.funcsByKey[modulePath+"/"+a.Callee]
		if callee == nil {
			engineErr("structural %s: unknown function %s", sc.Name, a.Callee)
		}
		var bad, seen []string
		for _, fn := range v.moduleFunctions(false) {
			if v.callsFunction(fn, callee) {
				k := shortKey(fn)
				seen = append(seen, k)
				if !matchAny(k, a.Allowed) {
					bad = append(bad, k)
				}
			}
		}
		return []StructResult{{Name: name, Kind: "frame", Text: fmt.Sprintf("callers(%s) within the allowed set", a.Callee),
			Detail: fmt.Sprintf("callers found: %s; not allowed: %s", strings.Join(seen, ", "), strings.Join(bad, ", ")), OK: len(bad) == 0}}
	case "writers_subset":
		var a struct {
			Field   string   `json:"field"` // pkg.T::field
			Allowed []string `json:"allowed"`
		}
		json.Unmarshal(sc.Args, &a)
		i := strings.Index(a.Field, "::")
		t, err := v.ResolveType(a.Field[:i], nil)
		if err != nil {
			engineErr("structural %s: %v", sc.Name, err)
		}
		fname := a.Field[i+2:]
		var bad, seen []string
		for _, fn := range v.moduleFunctions(false) {
			if v.writesField(fn, t, fname) {
				k := shortKey(fn)
				seen = append(seen, k)
				if !matchAny(k, a.Allowed) {
					bad = append(bad, k)
				}
			}
		}
		return []StructResult{{Name: name, Kind: "frame", Text: fmt.Sprintf("writers(%s) within the allowed set", a.Field),
			Detail: fmt.Sprintf("writers found: %s; not allowed: %s", strings.Join(seen, ", "), strings.Join(bad, ", ")), OK: len(bad) == 0}}
	case "allocs_subset":
		// objects of this struct type are only allocated (composite literal / new) in the allowed functions
		var a struct {
			Type    string   `json:"type"`
			Allowed []string `json:"allowed"`
		}
		json.Unmarshal(sc.Args, &a)
		t, err := v.ResolveType(a.Type, nil)
		if err != nil {
			engineErr("structural %s: %v", sc.Name, err)
		}
		var bad, seen []string
		for _, fn := range v.moduleFunctions(false) {
			found := false
			for _, b := range fn.Blocks {
				for _, in := range b.Instrs {
					if al, ok := in.(*ssa.Alloc); ok && types.Identical(al.Type().(*types.Pointer).Elem(), t) {
						found = true
					}
				}
			}
			if found {
				k := shortKey(fn)
				seen = append(seen, k)
				if !matchAny(k, a.Allowed) {
					bad = append(bad, k)
				}
			}
		}
		return []StructResult{{Name: name, Kind: "frame", Text: fmt.Sprintf("allocators(%s) within the allowed set", a.Type),
			Detail: fmt.Sprintf("allocating functions: %s; not allowed: %s", strings.Join(seen, ", "), strings.Join(bad, ", ")), OK: len(bad) == 0}}
	case "effects_exclude":
		// the transitive write set of a function does not contain the given fields
		var a struct {
			Func   string   `json:"func"`
			Fields []string `json:"fields"`
		}
		json.Unmarshal(sc.Args, &a)
		fn := v.funcsByKey[modulePath+"/"+a.Func]
		if fn == nil {
			engineErr("structural %s: unknown function %s", sc.Name, a.Func)
		}
		ks, all := v.BodyEffects(fv, fn)
		have := map[string]bool{}
		for _, k := range ks {
			have[k] = true
		}
		var bad []string
		if all {
			bad = append(bad, "unknown writes")
		}
		for _, f := range a.Fields {
			for _, hk := range fv.readKeys(f, nil) {
				if have[hk.Key] {
					bad = append(bad, hk.Key)
				}
			}
		}
		return []StructResult{{Name: name, Kind: "frame", Text: fmt.Sprintf("effects(%s) exclude %s", a.Func, strings.Join(a.Fields, ", ")),
			Detail: "written: " + strings.Join(uniq(bad), ", "), OK: len(bad) == 0}}
	}
	engineErr("unknown structural check kind %q", sc.Kind)
	return nil
}

func uniq(xs []string) []string {
	var out []string
	for i, x := range xs {
		if i == 0 || x != xs[i-1] {
			out = append(out, x)
		}
	}
	return out
}

// callsFunction: fn contains a call that may reach callee (static call, or invoke of a method
// callee implements).
func (v *Verifier) callsFunction(fn, callee *ssa.Function) bool {
	return v.callsFunctionX(fn, callee, map[*ssa.Function]bool{})
}

func (v *Verifier) callsFunctionX(fn, callee *ssa.Function, seen map[*ssa.Function]bool) bool {
	if seen[fn] {
		return false
	}
	seen[fn] = true
	for _, b := range fn.Blocks {
		for _, in := range b.Instrs {
			ci, ok := in.(ssa.CallInstruction)
			if !ok {
				// function value taken: counts as a (potential) call
				var ops []*ssa.Value
				for _, op := range in.Operands(ops) {
					if op != nil && *op == ssa.Value(callee) {
						return true
					}
				}
				continue
			}
			cc := ci.Common()
			if sc := cc.StaticCallee(); sc != nil {
				if sc == callee || sc.Origin() == callee {
					return true
				}
				// synthetic wrappers (promoted methods, bound methods) are followed
				if sc.Synthetic != "" && len(sc.Blocks) > 0 && sc != fn && v.callsFunctionX(sc, callee, seen) {
					return true
				}
				continue
			}
			if cc.IsInvoke() && callee.Signature.Recv() != nil && cc.Method.Name() == callee.Name() {
				rt := callee.Signature.Recv().Type()
				if it, ok := cc.Value.Type().Underlying().(*types.Interface); ok && types.Implements(rt, it) {
					return true
				}
			}
			for _, a := range cc.Args {
				if a == ssa.Value(callee) {
					return true
				}
			}
		}
	}
	return false
}

func (v *Verifier) writesField(fn *ssa.Function, structT types.Type, field string) bool {
	for _, b := range fn.Blocks {
		for _, in := range b.Instrs {
			st, ok := in.(*ssa.Store)
			if !ok {
				continue
			}
			fa, ok := st.Addr.(*ssa.FieldAddr)
			if !ok {
				continue
			}
			t := fa.X.Type().Underlying().(*types.Pointer).Elem()
			if !types.Identical(t, structT) {
				continue
			}
			if t.Underlying().(*types.Struct).Field(fa.Field).Name() == field {
				// initialisation of an object allocated in this function is not a write to existing state
				if isLocalFresh(st.Addr) {
					continue
				}
				return true
			}
		}
	}
	return false
}
