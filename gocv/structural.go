package main

// Structural (frame / call-graph / syntactic) obligations.

type StructResult struct {
	Name, Kind, Text, Detail string
	OK                       bool
}

func (v *Verifier) runStructural(cfg PropConfig) []StructResult {
	var out []StructResult
	for _, sc := range cfg.Structural {
		out = append(out, v.structural(cfg, sc)...)
	}
	return out
}

func (v *Verifier) structural(cfg PropConfig, sc StructuralCheck) []StructResult {
	engineErr("unknown structural check kind %q", sc.Kind)
	return nil
}
