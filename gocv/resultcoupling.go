package main

// Result coupling (C20, clause "every result a run saves appears in the inspection's results"):
// every call of baseAction.saveResult / saveWebhookResult in a method of an action type T is matched
// against what T.Results declares to flow inspection:
//   * T has a Results method (otherwise inspection cannot know about the result at all);
//   * the name passed to saveResult is the receiver field that Results passes to flows.NewResultInfo;
//   * the category passed is a constant among the categories Results declares, or the receiver field
//     Results declares, or Results declares no fixed categories; for saveWebhookResult the categories are
//     the values of the webhookStatusCategories map literal.
// Everything is read from the SSA / typed syntax of /repo on every run.

import (
	"encoding/json"
	"fmt"
	"go/ast"
	"go/constant"
	"go/token"
	"go/types"
	"sort"
	"strings"

	"golang.org/x/tools/go/ssa"
)

type rcArgs struct {
	Pkg          string   `json:"pkg"`           // package of the action types
	SaveFuncs    []string `json:"save_funcs"`    // function keys: category argument index after ':' e.g. "flows/actions::(*baseAction).saveResult:3:5"
	WebhookSave  string   `json:"webhook_save"`  // "flows/actions::(*baseAction).saveWebhookResult:3"
	WebhookMap   string   `json:"webhook_map"`   // global map whose values are the categories it can save
	ResultsName  string   `json:"results_name"`  // "Results"
	NewInfo      string   `json:"new_info"`      // "github.com/nyaruka/goflow/flows.NewResultInfo"
	HelperPrefix string   `json:"helper_prefix"` // receiver-less helper functions are not expected
}

// globalStringValues: constant string values in the initialiser of a package-level slice / map variable
func (v *Verifier) globalStringValues(pkgPath, name string) ([]string, bool) {
	p := v.allPkgs[pkgPath]
	if p == nil {
		return nil, false
	}
	for _, f := range p.Syntax {
		for _, d := range f.Decls {
			gd, ok := d.(*ast.GenDecl)
			if !ok || gd.Tok != token.VAR {
				continue
			}
			for _, sp := range gd.Specs {
				vs := sp.(*ast.ValueSpec)
				for i, n := range vs.Names {
					if n.Name != name || i >= len(vs.Values) {
						continue
					}
					cl, ok := vs.Values[i].(*ast.CompositeLit)
					if !ok {
						return nil, false
					}
					var out []string
					for _, e := range cl.Elts {
						val := e
						if kv, ok := e.(*ast.KeyValueExpr); ok {
							val = kv.Value
						}
						tv, ok := p.TypesInfo.Types[val]
						if !ok || tv.Value == nil || tv.Value.Kind() != constant.String {
							return nil, false
						}
						out = append(out, constant.StringVal(tv.Value))
					}
					return out, true
				}
			}
		}
	}
	return nil, false
}

// recvField: v is a load of a field of the method's receiver; returns the field name
func recvField(fn *ssa.Function, val ssa.Value) (string, bool) {
	for {
		switch x := val.(type) {
		case *ssa.ChangeType:
			val = x.X
			continue
		case *ssa.Convert:
			val = x.X
			continue
		}
		break
	}
	u, ok := val.(*ssa.UnOp)
	if !ok || u.Op != token.MUL {
		return "", false
	}
	fa, ok := u.X.(*ssa.FieldAddr)
	if !ok {
		return "", false
	}
	// receiver, possibly through embedded structs
	path := ""
	cur := fa
	for {
		st := cur.X.Type().Underlying().(*types.Pointer).Elem().Underlying().(*types.Struct)
		path = st.Field(cur.Field).Name() + map[bool]string{true: "." + path, false: ""}[path != ""]
		if len(fn.Params) > 0 && cur.X == ssa.Value(fn.Params[0]) {
			return path, true
		}
		next, ok := cur.X.(*ssa.FieldAddr)
		if !ok {
			return "", false
		}
		cur = next
	}
}

type declaredResult struct {
	nameField string
	consts    map[string]bool
	fields    map[string]bool
	anyCat    bool // declares no fixed categories on some path
}

func (v *Verifier) declaredResults(fn *ssa.Function, newInfo string) ([]declaredResult, string) {
	var out []declaredResult
	for _, b := range fn.Blocks {
		for _, in := range b.Instrs {
			call, ok := in.(*ssa.Call)
			if !ok || call.Common().StaticCallee() == nil || call.Common().StaticCallee().String() != newInfo {
				continue
			}
			args := call.Common().Args
			nf, ok := recvField(fn, args[0])
			if !ok {
				return nil, "the name given to NewResultInfo is not a field of the receiver (" + v.prog.Fset.Position(call.Pos()).String() + ")"
			}
			dr := declaredResult{nameField: nf, consts: map[string]bool{}, fields: map[string]bool{}}
			// categories
			cv := args[1]
			switch x := cv.(type) {
			case *ssa.UnOp:
				if g, ok := x.X.(*ssa.Global); ok {
					vals, ok := v.globalStringValues(g.Pkg.Pkg.Path(), g.Name())
					if !ok {
						return nil, "cannot read the literal of " + g.Name()
					}
					for _, s := range vals {
						dr.consts[s] = true
					}
				} else {
					return nil, "categories are not a literal"
				}
			case *ssa.Slice:
				al, ok := x.X.(*ssa.Alloc)
				if !ok {
					return nil, "categories are not a literal"
				}
				n := 0
				if al.Referrers() != nil {
					for _, r := range *al.Referrers() {
						ia, ok := r.(*ssa.IndexAddr)
						if !ok || ia.Referrers() == nil {
							continue
						}
						for _, r2 := range *ia.Referrers() {
							st, ok := r2.(*ssa.Store)
							if !ok {
								continue
							}
							n++
							if c, ok := st.Val.(*ssa.Const); ok && c.Value != nil && c.Value.Kind() == constant.String {
								dr.consts[constant.StringVal(c.Value)] = true
							} else if f, ok := recvField(fn, st.Val); ok {
								dr.fields[f] = true
							} else {
								return nil, "a declared category is neither a constant nor a field of the receiver"
							}
						}
					}
				}
				if n == 0 {
					dr.anyCat = true
				}
			case *ssa.Const:
				dr.anyCat = true
			default:
				return nil, fmt.Sprintf("categories are not a literal (%T)", cv)
			}
			out = append(out, dr)
		}
	}
	if len(out) == 0 {
		return nil, "declares no result (no call of NewResultInfo)"
	}
	return out, ""
}

func (v *Verifier) resultCoupling(cfg PropConfig, sc StructuralCheck) []StructResult {
	var a rcArgs
	if err := json.Unmarshal(sc.Args, &a); err != nil {
		engineErr("structural %s: %v", sc.Name, err)
	}
	type saveFn struct {
		fn       *ssa.Function
		nameIdx  int
		catIdx   int
		webhook  bool
	}
	var saves []saveFn
	parse := func(spec string, webhook bool) {
		parts := strings.Split(spec, ":")
		// key has "::" inside: rejoin
		key := strings.Join(parts[:len(parts)-map[bool]int{true: 1, false: 2}[webhook]], ":")
		fn := v.funcsByKey[modulePath+"/"+key]
		if fn == nil {
			engineErr("structural %s: function %s not found in /repo (renamed or removed?)", sc.Name, key)
		}
		s := saveFn{fn: fn, webhook: webhook}
		fmt.Sscanf(parts[len(parts)-map[bool]int{true: 1, false: 2}[webhook]], "%d", &s.nameIdx)
		if !webhook {
			fmt.Sscanf(parts[len(parts)-1], "%d", &s.catIdx)
		}
		saves = append(saves, s)
	}
	for _, s := range a.SaveFuncs {
		parse(s, false)
	}
	if a.WebhookSave != "" {
		parse(a.WebhookSave, true)
	}
	var webhookCats []string
	if a.WebhookMap != "" {
		vals, ok := v.globalStringValues(modulePath+"/"+a.Pkg, a.WebhookMap)
		if !ok {
			engineErr("structural %s: cannot read the literal of %s", sc.Name, a.WebhookMap)
		}
		webhookCats = vals
	}
	isSave := func(f *ssa.Function) *saveFn {
		for i := range saves {
			if saves[i].fn == f {
				return &saves[i]
			}
		}
		return nil
	}
	var out []StructResult
	nCalls := 0
	funcs := v.moduleFunctions(false)
	sort.Slice(funcs, func(i, j int) bool { return funcs[i].String() < funcs[j].String() })
	for _, fn := range funcs {
		if isSave(fn) != nil || fn.Synthetic != "" {
			continue // the helpers themselves (saveWebhookResult calls saveResult with computed values); promoted-method wrappers
		}
		ord := 0
		for _, b := range fn.Blocks {
			for _, in := range b.Instrs {
				call, ok := in.(*ssa.Call)
				if !ok || call.Common().StaticCallee() == nil {
					continue
				}
				sv := isSave(call.Common().StaticCallee())
				if sv == nil {
					continue
				}
				nCalls++
				ord++
				pos := v.prog.Fset.Position(call.Pos())
				name := fmt.Sprintf("%s/structural/result_coupling[%s#%d]", cfg.ID, shortKey(fn), ord)
				text := fmt.Sprintf("the result saved by %s (%s) is declared by the action's Results method under the same name and category", shortKey(fn), pos)
				fail := func(why string) {
					out = append(out, StructResult{Name: name, Kind: "coupling", Text: text, Detail: why, OK: false})
				}
				if fn.Signature.Recv() == nil {
					fail("saves a result from a function that is not a method of an action type")
					continue
				}
				recvT := fn.Signature.Recv().Type()
				ms := v.prog.MethodSets.MethodSet(recvT)
				var resultsFn *ssa.Function
				for i := 0; i < ms.Len(); i++ {
					if ms.At(i).Obj().Name() == a.ResultsName {
						if f := v.prog.MethodValue(ms.At(i)); f != nil && f.Synthetic == "" {
							resultsFn = f
						}
					}
				}
				if resultsFn == nil {
					fail(fmt.Sprintf("%s saves a result but has no %s method: flow inspection lists no result for it", types.TypeString(recvT, func(p *types.Package) string { return p.Name() }), a.ResultsName))
					continue
				}
				decl, why := v.declaredResults(resultsFn, a.NewInfo)
				if why != "" {
					fail(shortKey(resultsFn) + ": " + why)
					continue
				}
				args := call.Common().Args
				nf, ok := recvField(fn, args[sv.nameIdx])
				if !ok {
					fail("the saved name is not a field of the receiver")
					continue
				}
				var matching []declaredResult
				for _, d := range decl {
					if d.nameField == nf {
						matching = append(matching, d)
					}
				}
				if len(matching) == 0 {
					fail(fmt.Sprintf("saves under the name in field %s, but %s declares the name in field %s", nf, shortKey(resultsFn), decl[0].nameField))
					continue
				}
				var cats []string
				catField := ""
				if sv.webhook {
					cats = webhookCats
				} else {
					cv := args[sv.catIdx]
					if c, ok := cv.(*ssa.Const); ok && c.Value != nil && c.Value.Kind() == constant.String {
						cats = []string{constant.StringVal(c.Value)}
					} else if f, ok := recvField(fn, cv); ok {
						catField = f
					} else {
						fail("the saved category is neither a constant nor a field of the receiver")
						continue
					}
				}
				okAll := true
				detail := ""
				for _, c := range cats {
					okC := false
					for _, d := range matching {
						if d.consts[c] || (d.anyCat && len(d.consts) == 0 && len(d.fields) == 0) {
							okC = true
						}
					}
					if !okC {
						okAll = false
						detail = fmt.Sprintf("saves category %q, which %s does not declare", c, shortKey(resultsFn))
					}
				}
				if catField != "" {
					okC := false
					for _, d := range matching {
						if d.fields[catField] {
							okC = true
						}
					}
					if !okC {
						okAll = false
						detail = fmt.Sprintf("saves the category in field %s, which %s does not declare", catField, shortKey(resultsFn))
					}
				}
				if !okAll {
					fail(detail)
					continue
				}
				out = append(out, StructResult{Name: name, Kind: "coupling", Text: text, Detail: fmt.Sprintf("name field %s, categories %v%s declared by %s", nf, cats, catField, shortKey(resultsFn)), OK: true})
			}
		}
	}
	out = append(out, StructResult{Name: fmt.Sprintf("%s/structural/result_coupling[inventory]", cfg.ID), Kind: "coupling", Text: "call sites of the result-saving helpers found", Detail: fmt.Sprintf("%d call sites", nCalls), OK: nCalls > 0})
	return out
}

func shortPos(p token.Position) string {
	f := p.Filename
	if i := strings.LastIndex(f, "/"); i >= 0 {
		f = f[i+1:]
	}
	return fmt.Sprintf("%s:%d", f, p.Line)
}
