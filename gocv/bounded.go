package main

// Bounded stand-ins. Where a function cannot be brought within the VC generator's reach (the ANTLR-generated lexer:
// serialized ATN tables interpreted by the runtime), a bounded, exhaustive check of the real code with a stated bound
// stands in for the clause that depends on it. It is labelled bounded everywhere, reported under coverage.bounded in
// the evidence, and never counted among the obligations discharged. The driver is a Go test injected with
// `go test -overlay` (nothing is written to /repo); it enumerates its space completely, classifies every failing
// case and prints
//   BOUNDED: cases=<n> bound=<text>
//   BOUNDED-FAIL class=<class> input=<go-quoted input> detail=<text>        (first few per class)
// Every class is one named obligation <prop>/bounded/<name>[<class>] (so that a known finding names a class of
// inputs and any other class is still a violation); with no failure there is one obligation <prop>/bounded/<name>.

import (
	"bytes"
	"context"
	"encoding/json"
	"fmt"
	"os"
	"os/exec"
	"path/filepath"
	"regexp"
	"sort"
	"strings"
	"time"
)

type BoundedCheck struct {
	Name  string `json:"name"`
	Pkg   string `json:"pkg"`
	File  string `json:"file"`
	Test  string `json:"test"`
	Bound string `json:"bound"`
	Text  string `json:"text"`
}

type BoundedResult struct {
	Name     string
	Text     string
	Bound    string
	Cases    int
	OK       bool
	Class    string
	Inputs   []string
	Detail   string
	WallS    float64
	RanError string
}

var boundedFailRe = regexp.MustCompile(`^BOUNDED-FAIL class=(\S+) input=(.*) detail=(.*)$`)
var boundedSumRe = regexp.MustCompile(`^BOUNDED: cases=(\d+)`)
var boundedCountRe = regexp.MustCompile(`^BOUNDED-COUNT class=(\S+) n=(\d+)$`)

func runBounded(verif, repo string, overlay map[string][]byte, cfg *PropConfig, bc BoundedCheck, thorough bool) []BoundedResult {
	start := time.Now()
	work := filepath.Join(verif, "work", "boundedtmp", cfg.ID, bc.Name)
	os.MkdirAll(work, 0o755)
	defer os.RemoveAll(work)
	repl := map[string]string{}
	for path, content := range overlay {
		f := filepath.Join(work, fmt.Sprintf("ov%x.go", hashString(path)))
		os.WriteFile(f, content, 0o644)
		repl[path] = f
	}
	repl[filepath.Join(repo, bc.Pkg, "zz_gocv_bounded_test.go")] = filepath.Join(verif, bc.File)
	ov, _ := json.Marshal(map[string]interface{}{"Replace": repl})
	ovFile := filepath.Join(work, "overlay.json")
	os.WriteFile(ovFile, ov, 0o644)
	ctx, cancel := context.WithTimeout(context.Background(), 600*time.Second)
	defer cancel()
	cmd := exec.CommandContext(ctx, "go", "test", "-overlay", ovFile, "-vet=off", "-count=1", "-v", "-timeout", "540s", "-run", "^"+bc.Test+"$", "./"+bc.Pkg)
	cmd.Dir = repo
	tier := "quick"
	if thorough {
		tier = "thorough"
	}
	cmd.Env = append(os.Environ(), "GOCV_BOUNDED=1", "GOCV_BOUNDED_TIER="+tier, "GOFLAGS=-mod=mod", "GOPROXY=off", "GOSUMDB=off", "GOTOOLCHAIN=local")
	var out bytes.Buffer
	cmd.Stdout = &out
	cmd.Stderr = &out
	cmd.Run()
	base := fmt.Sprintf("%s/bounded/%s", cfg.ID, bc.Name)
	cases := -1
	byClass := map[string]*BoundedResult{}
	counts := map[string]int{}
	for _, ln := range strings.Split(out.String(), "\n") {
		ln = strings.TrimSpace(ln)
		if m := boundedSumRe.FindStringSubmatch(ln); m != nil {
			fmt.Sscan(m[1], &cases)
		}
		if m := boundedCountRe.FindStringSubmatch(ln); m != nil {
			n := 0
			fmt.Sscan(m[2], &n)
			counts[m[1]] = n
		}
		if m := boundedFailRe.FindStringSubmatch(ln); m != nil {
			r := byClass[m[1]]
			if r == nil {
				r = &BoundedResult{Name: base + "[" + m[1] + "]", Text: bc.Text, Bound: bc.Bound, Class: m[1], Detail: m[3]}
				byClass[m[1]] = r
			}
			if len(r.Inputs) < 5 {
				r.Inputs = append(r.Inputs, m[2])
			}
		}
	}
	wall := time.Since(start).Seconds()
	if cases <= 0 {
		// the driver did not run to completion (build error after a change to /repo, panic, timeout): undecided
		return []BoundedResult{{Name: base, Text: bc.Text, Bound: bc.Bound, Cases: 0, OK: false, WallS: wall, RanError: truncate(out.String(), 600), Detail: "the bounded driver did not complete"}}
	}
	if len(byClass) == 0 {
		return []BoundedResult{{Name: base, Text: bc.Text, Bound: bc.Bound, Cases: cases, OK: true, WallS: wall}}
	}
	var res []BoundedResult
	var keys []string
	for k := range byClass {
		keys = append(keys, k)
	}
	sort.Strings(keys)
	failing := 0
	for _, k := range keys {
		r := byClass[k]
		r.Cases = counts[k]
		failing += counts[k]
		r.WallS = wall
		res = append(res, *r)
	}
	// everything outside the failing classes held
	res = append(res, BoundedResult{Name: base + "[all other cases]", Text: bc.Text, Bound: bc.Bound, Cases: cases - failing, OK: true, WallS: wall})
	return res
}
