package main

// Field-write (effect) analysis: which heap arrays a function may write, transitively.

import (
	"fmt"
	"go/types"
	"os"
	"sort"
	"strings"

	"golang.org/x/tools/go/ssa"
	"golang.org/x/tools/go/ssa/ssautil"
)

type directEff struct {
	keys    map[string]bool
	callees []*ssa.Function
	all     bool
}

type effIndex struct {
	direct    map[*ssa.Function]*directEff
	addrTaken map[string][]*ssa.Function // signature string -> functions used as values
	built     bool
}

var effIdx = &effIndex{direct: map[*ssa.Function]*directEff{}, addrTaken: map[string][]*ssa.Function{}}

func sigKey(s *types.Signature) string {
	// parameter and result types only (no names, no receiver)
	var b strings.Builder
	b.WriteString("func(")
	for i := 0; i < s.Params().Len(); i++ {
		if i > 0 {
			b.WriteString(",")
		}
		b.WriteString(types.TypeString(s.Params().At(i).Type(), nil))
	}
	if s.Variadic() {
		b.WriteString("...")
	}
	b.WriteString(")(")
	for i := 0; i < s.Results().Len(); i++ {
		if i > 0 {
			b.WriteString(",")
		}
		b.WriteString(types.TypeString(s.Results().At(i).Type(), nil))
	}
	b.WriteString(")")
	return b.String()
}

func (v *Verifier) buildAddrTaken() {
	if effIdx.built {
		return
	}
	effIdx.built = true
	for fn := range ssautil.AllFunctions(v.prog) {
		p := pkgOf(fn)
		if p == nil || !isModulePkg(p) {
			continue
		}
		for _, b := range fn.Blocks {
			for _, in := range b.Instrs {
				var ops []*ssa.Value
				ops = in.Operands(ops)
				for i, op := range ops {
					if op == nil || *op == nil {
						continue
					}
					if call, ok := in.(ssa.CallInstruction); ok && i == 0 && !call.Common().IsInvoke() {
						if _, isMC := (*op).(*ssa.MakeClosure); !isMC {
							continue // callee position
						}
						continue
					}
					switch f := (*op).(type) {
					case *ssa.Function:
						k := sigKey(f.Signature)
						effIdx.addrTaken[k] = append(effIdx.addrTaken[k], f)
					case *ssa.MakeClosure:
						fn2 := f.Fn.(*ssa.Function)
						k := sigKey(fn2.Signature)
						effIdx.addrTaken[k] = append(effIdx.addrTaken[k], fn2)
					}
				}
			}
		}
	}
}

func rootOfAddr(v ssa.Value) ssa.Value {
	for {
		switch x := v.(type) {
		case *ssa.FieldAddr:
			v = x.X
		case *ssa.IndexAddr:
			// element of an array allocated locally
			if _, ok := x.X.Type().Underlying().(*types.Pointer); ok {
				v = x.X
			} else {
				return v
			}
		default:
			return v
		}
	}
}

func isLocalFresh(v ssa.Value) bool {
	r := rootOfAddr(v)
	switch x := r.(type) {
	case *ssa.Alloc:
		return true
	case *ssa.IndexAddr:
		// element of a slice made in this function
		return freshSlice(x.X, map[ssa.Value]bool{})
	}
	return false
}

// freshSlice: the backing array of this slice value was allocated in this function (so writing its
// elements is invisible to the caller until the slice is returned or stored).
func freshSlice(v ssa.Value, seen map[ssa.Value]bool) bool {
	if seen[v] {
		return true
	}
	seen[v] = true
	switch x := v.(type) {
	case *ssa.MakeSlice:
		return true
	case *ssa.Const:
		return x.Value == nil
	case *ssa.Slice:
		if _, ok := x.X.(*ssa.Alloc); ok {
			return true
		}
		if _, ok := x.X.Type().Underlying().(*types.Slice); ok {
			return freshSlice(x.X, seen)
		}
	case *ssa.Phi:
		for _, e := range x.Edges {
			if !freshSlice(e, seen) {
				return false
			}
		}
		return true
	case *ssa.Convert:
		_, ok := x.Type().Underlying().(*types.Slice)
		return ok
	case *ssa.UnOp:
		// load of a local variable cell (captured by a closure): fresh if everything stored into it is
		if a, ok := x.X.(*ssa.Alloc); ok && a.Referrers() != nil {
			n := 0
			for _, ref := range *a.Referrers() {
				if st, ok := ref.(*ssa.Store); ok && st.Addr == a {
					n++
					if !freshSlice(st.Val, seen) {
						return false
					}
				}
			}
			return n > 0
		}
	case *ssa.Call:
		if bi, ok := x.Call.Value.(*ssa.Builtin); ok && bi.Name() == "append" {
			return freshSlice(x.Call.Args[0], seen)
		}
		// standard-library functions that return newly allocated slices
		if callee := x.Call.StaticCallee(); callee != nil {
			if p := pkgOf(callee); p != nil {
				switch p.Path() {
				case "strings", "strconv", "bytes", "regexp", "unicode/utf16":
					return true
				case "slices":
					n := callee.Name()
					return strings.HasPrefix(n, "Clone") || strings.HasPrefix(n, "Collect") || strings.HasPrefix(n, "Sorted") || strings.HasPrefix(n, "Concat")
				}
			}
		}
	}
	return false
}

func (v *Verifier) directEffects(fv *FuncVC, fn *ssa.Function) *directEff {
	return v.directEffectsX(fv, fn, false)
}

func (v *Verifier) directEffectsX(fv *FuncVC, fn *ssa.Function, bodyOnly bool) *directEff {
	if !bodyOnly {
		if d, ok := effIdx.direct[fn]; ok {
			return d
		}
	}
	d := &directEff{keys: map[string]bool{}}
	if !bodyOnly {
		effIdx.direct[fn] = d
	}
	add := func(ks []HeapKey) {
		for _, k := range ks {
			d.keys[k.Key] = true
		}
	}
	addS := func(ks []string) {
		for _, k := range ks {
			d.keys[k] = true
		}
	}
	if con := v.contracts[fn]; con != nil && con.Pure && !bodyOnly {
		return d
	}
	// contract with explicit assigns: trust the declaration (checked by the frame obligation of that function)
	if con := v.contracts[fn]; con != nil && con.HasAssigns && !bodyOnly {
		for _, it := range fv.expandAssigns(con.Assigns, pkgOf(fn)) {
			switch {
			case it.Computed:
				ks, all := v.BodyEffects(fv, fn)
				for _, k := range ks {
					d.keys[k] = true
				}
				d.all = d.all || all
			case it.All:
				d.all = true
			case it.TypeT != "":
				add(fv.readKeys(it.keySpec(), pkgOf(fn)))
			default:
				addS(v.assignsItemKeys(fv, fn, it))
			}
		}
		return d
	}
	if len(fn.Blocks) == 0 {
		return d
	}
	p := pkgOf(fn)
	external := p == nil || !isModulePkg(p)
	for _, b := range fn.Blocks {
		for _, in := range b.Instrs {
			switch x := in.(type) {
			case *ssa.Store:
				if external {
					continue
				}
				if isLocalFresh(x.Addr) {
					continue
				}
				switch a := x.Addr.(type) {
				case *ssa.FieldAddr:
					structT := a.X.Type().Underlying().(*types.Pointer).Elem()
					ft := structT.Underlying().(*types.Struct).Field(a.Field).Type()
					if isStructLike(ft) {
						addS(fv.allKeysOfType(ft, map[types.Type]bool{}))
					} else {
						add(fv.m.FieldKeys(structT, a.Field))
					}
				case *ssa.IndexAddr:
					switch t := a.X.Type().Underlying().(type) {
					case *types.Slice:
						add(fv.m.ElemKeys(t.Elem()))
					case *types.Pointer:
						add(fv.m.ElemKeys(t.Elem().Underlying().(*types.Array).Elem()))
					}
				default:
					pt := x.Addr.Type().Underlying().(*types.Pointer).Elem()
					addS(fv.allKeysOfType(pt, map[types.Type]bool{}))
				}
			case *ssa.MapUpdate:
				if external {
					continue
				}
				if freshMap(x.Map, fn) {
					continue
				}
				mt := x.Map.Type().Underlying().(*types.Map)
				add([]HeapKey{fv.m.MapDomKey(mt)})
				add(fv.m.MapValKeys(mt))
			case ssa.CallInstruction:
				cc := x.Common()
				if bi, ok := cc.Value.(*ssa.Builtin); ok {
					if external {
						continue
					}
					switch bi.Name() {
					case "delete", "clear":
						if mt, ok := cc.Args[0].Type().Underlying().(*types.Map); ok {
							add([]HeapKey{fv.m.MapDomKey(mt)})
						}
					case "copy":
						if sl, ok := cc.Args[0].Type().Underlying().(*types.Slice); ok {
							add(fv.m.ElemKeys(sl.Elem()))
						}
					}
					continue
				}
				if _, isDefer := in.(*ssa.Defer); isDefer {
					continue
				}
				if cc.IsInvoke() {
					// all implementers in the module
					for _, t := range v.Implementers(cc.Value.Type()) {
						if isTestType(t) {
							continue
						}
						sel := v.prog.MethodSets.MethodSet(t).Lookup(cc.Method.Pkg(), cc.Method.Name())
						if sel == nil {
							continue
						}
						if m := v.prog.MethodValue(sel); m != nil {
							d.callees = append(d.callees, m)
						}
					}
					continue
				}
				if callee := cc.StaticCallee(); callee != nil {
					cp := pkgOf(callee)
					if cp != nil && isModulePkg(cp) || v.contracts[callee] != nil {
						d.callees = append(d.callees, callee)
					} else {
						// external: only closures passed in
						for _, a := range cc.Args {
							switch f := a.(type) {
							case *ssa.MakeClosure:
								d.callees = append(d.callees, f.Fn.(*ssa.Function))
							case *ssa.Function:
								d.callees = append(d.callees, f)
							}
						}
					}
					continue
				}
				// dynamic
				if external {
					continue
				}
				if mc, ok := cc.Value.(*ssa.MakeClosure); ok {
					d.callees = append(d.callees, mc.Fn.(*ssa.Function))
					continue
				}
				// typed callback with declared assigns
				if n, ok := types.Unalias(cc.Value.Type()).(*types.Named); ok && n.Obj().Pkg() != nil {
					if c := v.ifaceCon[n.Obj().Pkg().Path()+"."+n.Obj().Name()+".call"]; c != nil && c.HasAssigns {
						for _, it := range c.Assigns {
							if it.All {
								d.all = true
							} else if it.TypeT != "" {
								add(fv.readKeys(it.keySpec(), n.Obj().Pkg()))
							} else {
								addS(v.assignsItemKeys(fv, fn, it))
							}
						}
						continue
					}
				}
				v.buildAddrTaken()
				d.callees = append(d.callees, effIdx.addrTaken[sigKey(cc.Signature())]...)
			}
		}
	}
	return d
}

// assignsItemKeys: type-level keys for a location-level assigns item (x.f -> T::f, ghost.g -> G$g)
func (v *Verifier) assignsItemKeys(fv *FuncVC, fn *ssa.Function, it AssignsItem) []string {
	var out []string
	switch e := it.Expr.(type) {
	case *SSel:
		if id, ok := e.X.(*SIdent); ok && id.Name == "ghost" {
			if g := v.ghosts[e.Name]; g != nil {
				for _, hk := range fv.ghostKeys(g) {
					out = append(out, hk.Key)
				}
			}
			return out
		}
		// resolve static type of e.X syntactically: parameter name chain
		t := v.staticSpecType(fv, fn, e.X)
		if t == nil {
			engineErr("assigns %s in contract of %s: cannot type the base expression", it.Text, fn)
		}
		if p, ok := t.Underlying().(*types.Pointer); ok {
			t = p.Elem()
		}
		path := fv.fieldPath(t, e.Name)
		if path == nil {
			engineErr("assigns %s: no such field", it.Text)
		}
		cur := t
		for i, idx := range path {
			ft := cur.Underlying().(*types.Struct).Field(idx).Type()
			if i == len(path)-1 {
				if isStructLike(ft) {
					out = append(out, fv.allKeysOfType(ft, map[types.Type]bool{})...)
				} else {
					for _, hk := range fv.m.FieldKeys(cur, idx) {
						out = append(out, hk.Key)
					}
				}
			} else {
				if p, ok := ft.Underlying().(*types.Pointer); ok {
					ft = p.Elem()
				}
				cur = ft
			}
		}
	case *SIndex:
		t := v.staticSpecType(fv, fn, e.X)
		if t == nil {
			engineErr("assigns %s: cannot type", it.Text)
		}
		switch u := t.Underlying().(type) {
		case *types.Slice:
			for _, hk := range fv.m.ElemKeys(u.Elem()) {
				out = append(out, hk.Key)
			}
		case *types.Map:
			out = append(out, fv.m.MapDomKey(u).Key)
			for _, hk := range fv.m.MapValKeys(u) {
				out = append(out, hk.Key)
			}
		}
	}
	return out
}

// staticSpecType: type of a simple spec expression (parameter / field chains) without evaluation.
func (v *Verifier) staticSpecType(fv *FuncVC, fn *ssa.Function, e SExpr) types.Type {
	switch x := e.(type) {
	case *SIdent:
		for _, p := range fn.Params {
			if p.Name() == x.Name {
				return p.Type()
			}
		}
		for _, p := range fn.FreeVars {
			if p.Name() == x.Name {
				if pt, ok := p.Type().Underlying().(*types.Pointer); ok {
					return pt.Elem()
				}
				return p.Type()
			}
		}
		if con := v.contracts[fn]; con != nil {
			for _, l := range con.Lets {
				if l.Name == x.Name {
					return v.staticSpecType(fv, fn, l.Expr)
				}
			}
		}
	case *SSel:
		bt := v.staticSpecType(fv, fn, x.X)
		if bt == nil {
			return nil
		}
		if p, ok := bt.Underlying().(*types.Pointer); ok {
			bt = p.Elem()
		}
		path := fv.fieldPath(bt, x.Name)
		if path == nil {
			return nil
		}
		cur := bt
		for _, idx := range path {
			ft := cur.Underlying().(*types.Struct).Field(idx).Type()
			cur = ft
			if p, ok := ft.Underlying().(*types.Pointer); ok && isStructLike(p.Elem()) {
				cur = ft
			}
			if pp, ok := cur.Underlying().(*types.Pointer); ok {
				_ = pp
			}
			if _, isStruct := cur.Underlying().(*types.Struct); !isStruct {
				if p, ok := cur.Underlying().(*types.Pointer); ok {
					_ = p
				}
			}
			if idx != path[len(path)-1] {
				if p, ok := cur.Underlying().(*types.Pointer); ok {
					cur = p.Elem()
				}
			}
		}
		return cur
	case *SAssert:
		t, err := v.ResolveType(x.Type, pkgOf(fn))
		if err == nil {
			return t
		}
	case *SCall:
		if id, ok := x.Fun.(*SIdent); ok && id.Name == "old" {
			return v.staticSpecType(fv, fn, x.Args[0])
		}
	}
	return nil
}

// Effects returns the transitive write set of fn as heap keys.
func (v *Verifier) Effects(fv *FuncVC, fn *ssa.Function) ([]string, bool) {
	if r, ok := v.effCache[fn]; ok {
		return keysOf(r)
	}
	seen := map[*ssa.Function]bool{}
	acc := map[string]bool{}
	all := false
	var stack []*ssa.Function
	stack = append(stack, fn)
	for len(stack) > 0 {
		f := stack[len(stack)-1]
		stack = stack[:len(stack)-1]
		if seen[f] {
			continue
		}
		seen[f] = true
		d := v.directEffects(fv, f)
		if d.all {
			all = true
		}
		for k := range d.keys {
			acc[k] = true
			if w := os.Getenv("GOCV_WHO"); w != "" && k == w {
				fmt.Fprintf(os.Stderr, "[who] %s written directly by %s (reached from %s)\n", k, f, fn)
			}
		}
		stack = append(stack, d.callees...)
	}
	if all {
		acc["*"] = true
	}
	v.effCache[fn] = acc
	return keysOf(acc)
}

func keysOf(m map[string]bool) ([]string, bool) {
	var out []string
	all := false
	for k := range m {
		if k == "*" {
			all = true
			continue
		}
		out = append(out, k)
	}
	sort.Strings(out)
	return out, all
}

func (v *Verifier) dynamicEffects(fv *FuncVC, sig *types.Signature) ([]string, bool) {
	v.buildAddrTaken()
	acc := map[string]bool{}
	all := false
	for _, f := range effIdx.addrTaken[sigKey(sig)] {
		ks, a := v.Effects(fv, f)
		for _, k := range ks {
			acc[k] = true
		}
		all = all || a
	}
	if all {
		acc["*"] = true
	}
	return keysOf(acc)
}

// loopWriteSet: heap keys possibly written in the loop body.
func (fv *FuncVC) loopWriteSet(fr *Frame, li *loopInfo) ([]string, bool) {
	acc := map[string]bool{}
	all := false
	add := func(ks []HeapKey) {
		for _, k := range ks {
			acc[k.Key] = true
		}
	}
	for b := range li.blocks {
		for _, in := range b.Instrs {
			switch x := in.(type) {
			case *ssa.Store:
				switch a := x.Addr.(type) {
				case *ssa.FieldAddr:
					structT := a.X.Type().Underlying().(*types.Pointer).Elem()
					ft := structT.Underlying().(*types.Struct).Field(a.Field).Type()
					if isStructLike(ft) {
						for _, k := range fv.allKeysOfType(ft, map[types.Type]bool{}) {
							acc[k] = true
						}
					} else {
						add(fv.m.FieldKeys(structT, a.Field))
					}
				case *ssa.IndexAddr:
					switch t := a.X.Type().Underlying().(type) {
					case *types.Slice:
						add(fv.m.ElemKeys(t.Elem()))
					case *types.Pointer:
						add(fv.m.ElemKeys(t.Elem().Underlying().(*types.Array).Elem()))
					}
				default:
					pt := x.Addr.Type().Underlying().(*types.Pointer).Elem()
					for _, k := range fv.allKeysOfType(pt, map[types.Type]bool{}) {
						acc[k] = true
					}
				}
			case *ssa.MapUpdate:
				mt := x.Map.Type().Underlying().(*types.Map)
				add([]HeapKey{fv.m.MapDomKey(mt)})
				add(fv.m.MapValKeys(mt))
			case *ssa.Alloc:
				pt := x.Type().(*types.Pointer).Elem()
				if at, ok := pt.Underlying().(*types.Array); ok {
					add(fv.m.ElemKeys(at.Elem()))
				} else {
					for _, k := range fv.allKeysOfType(pt, map[types.Type]bool{}) {
						acc[k] = true
					}
				}
			case *ssa.MakeSlice:
				add(fv.m.ElemKeys(x.Type().Underlying().(*types.Slice).Elem()))
			case *ssa.MakeMap:
				add([]HeapKey{fv.m.MapDomKey(x.Type().Underlying().(*types.Map))})
			case *ssa.MakeInterface:
				// boxing a struct value allocates and stores
				if isStructLike(x.X.Type()) {
					for _, k := range fv.allKeysOfType(x.X.Type(), map[types.Type]bool{}) {
						acc[k] = true
					}
				} else if len(fv.m.Flatten(x.X.Type())) > 1 {
					add(fv.m.CellKeys(x.X.Type()))
				}
			case *ssa.Convert:
				if sl, ok := x.Type().Underlying().(*types.Slice); ok {
					add(fv.m.ElemKeys(sl.Elem()))
				}
			case ssa.CallInstruction:
				ks, a := fv.callWriteSet(fr, x)
				for _, k := range ks {
					acc[k] = true
				}
				all = all || a
			}
		}
	}
	ks, _ := keysOf(acc)
	return ks, all
}

// callWriteSet over-approximates what executing a call instruction may write (including what
// inlining it would allocate).
func (fv *FuncVC) callWriteSet(fr *Frame, x ssa.CallInstruction) ([]string, bool) {
	return fv.callWriteSetX(fr, x, true)
}

func (fv *FuncVC) callWriteSetX(fr *Frame, x ssa.CallInstruction, withAllocs bool) ([]string, bool) {
	cc := x.Common()
	acc := map[string]bool{}
	all := false
	addFn := func(fn *ssa.Function) {
		var ks []string
		var a bool
		if withAllocs {
			ks, a = fv.v.EffectsWithAllocs(fv, fn)
		} else {
			ks, a = fv.v.Effects(fv, fn)
		}
		for _, k := range ks {
			acc[k] = true
		}
		all = all || a
	}
	if bi, ok := cc.Value.(*ssa.Builtin); ok {
		switch bi.Name() {
		case "append":
			if !withAllocs {
				break
			}
			if sl, ok := cc.Args[0].Type().Underlying().(*types.Slice); ok {
				for _, hk := range fv.m.ElemKeys(sl.Elem()) {
					acc[hk.Key] = true
				}
			}
		case "delete", "clear":
			if mt, ok := cc.Args[0].Type().Underlying().(*types.Map); ok {
				acc[fv.m.MapDomKey(mt).Key] = true
			}
		case "copy":
			if sl, ok := cc.Args[0].Type().Underlying().(*types.Slice); ok {
				for _, hk := range fv.m.ElemKeys(sl.Elem()) {
					acc[hk.Key] = true
				}
			}
		}
	} else if cc.IsInvoke() {
		for _, t := range fv.v.Implementers(cc.Value.Type()) {
			if isTestType(t) {
				continue
			}
			sel := fv.v.prog.MethodSets.MethodSet(t).Lookup(cc.Method.Pkg(), cc.Method.Name())
			if sel == nil {
				continue
			}
			if m := fv.v.prog.MethodValue(sel); m != nil {
				addFn(m)
			}
		}
		if n, ok := types.Unalias(cc.Value.Type()).(*types.Named); ok && n.Obj().Pkg() != nil {
			if con := fv.v.ifaceCon[n.Obj().Pkg().Path()+"."+n.Obj().Name()+"."+cc.Method.Name()]; con != nil && con.HasAssigns {
				for _, it := range con.Assigns {
					if it.All {
						all = true
					} else if it.TypeT != "" {
						for _, hk := range fv.readKeys(it.keySpec(), n.Obj().Pkg()) {
							acc[hk.Key] = true
						}
					} else if sel, ok := it.Expr.(*SSel); ok {
						if id, ok := sel.X.(*SIdent); ok && id.Name == "ghost" {
							if g := fv.v.ghosts[sel.Name]; g != nil {
								for _, hk := range fv.ghostKeys(g) {
									acc[hk.Key] = true
								}
							}
						}
					}
				}
			}
		}
	} else if callee := cc.StaticCallee(); callee != nil && fv.contractOf(callee) != nil && !fv.contractOf(callee).Inline && (fv.contractOf(callee).Pure || fv.contractOf(callee).HasAssigns) {
		// modular call: only what the contract says (pure: nothing)
		con := fv.contractOf(callee)
		if !con.Pure {
			ks, a := fv.v.Effects(fv, callee)
			for _, k := range ks {
				acc[k] = true
			}
			all = all || a
		}
	} else if callee := cc.StaticCallee(); callee != nil {
		addFn(callee)
		if !isModulePkg(pkgOf(callee)) {
			for _, a := range cc.Args {
				if p, ok := a.Type().Underlying().(*types.Pointer); ok {
					for _, k := range fv.allKeysOfType(p.Elem(), map[types.Type]bool{}) {
						acc[k] = true
					}
				}
				switch f := a.(type) {
				case *ssa.MakeClosure:
					addFn(f.Fn.(*ssa.Function))
				case *ssa.Function:
					addFn(f)
				}
			}
		}
	} else {
		if mc, ok := cc.Value.(*ssa.MakeClosure); ok {
			addFn(mc.Fn.(*ssa.Function))
		} else {
			handled := false
			if name := fv.valueSourceName(fr, cc.Value); name != "" {
				if cb := fv.callbackSpec(fr, name); cb != nil {
					handled = true
					for _, it := range cb.Assigns {
						if it.All {
							all = true
						} else if it.TypeT != "" {
							for _, hk := range fv.readKeys(it.keySpec(), pkgOf(fr.fn)) {
								acc[hk.Key] = true
							}
						} else {
							for _, k := range fv.v.assignsItemKeys(fv, fr.fn, it) {
								acc[k] = true
							}
						}
					}
				}
			}
			if !handled {
				if n, ok := types.Unalias(cc.Value.Type()).(*types.Named); ok && n.Obj().Pkg() != nil {
					if c := fv.v.ifaceCon[n.Obj().Pkg().Path()+"."+n.Obj().Name()+".call"]; c != nil {
						handled = true
						for _, it := range c.Assigns {
							if it.All {
								all = true
							} else if it.TypeT != "" {
								for _, hk := range fv.readKeys(it.keySpec(), n.Obj().Pkg()) {
									acc[hk.Key] = true
								}
							} else {
								for _, k := range fv.v.assignsItemKeys(fv, fr.fn, it) {
									acc[k] = true
								}
							}
						}
					}
				}
			}
			if !handled {
				ks, a := fv.v.dynamicEffects(fv, cc.Signature())
				for _, k := range ks {
					acc[k] = true
				}
				all = all || a
			}
		}
	}
	ks, _ := keysOf(acc)
	return ks, all
}

// EffectsWithAllocs: Effects plus the keys that inlining fn would touch by allocating (fresh
// objects initialised by stores). Used only for loop havoc sets.
func (v *Verifier) EffectsWithAllocs(fv *FuncVC, fn *ssa.Function) ([]string, bool) {
	ks, all := v.Effects(fv, fn)
	acc := map[string]bool{}
	if all {
		acc["*"] = true
	}
	for _, k := range ks {
		acc[k] = true
	}
	seen := map[*ssa.Function]bool{}
	var walk func(f *ssa.Function, depth int)
	walk = func(f *ssa.Function, depth int) {
		if seen[f] || depth > fv.maxInlineDepth+1 {
			return
		}
		seen[f] = true
		for _, b := range f.Blocks {
			for _, in := range b.Instrs {
				switch x := in.(type) {
				case *ssa.Alloc:
					pt := x.Type().(*types.Pointer).Elem()
					if at, ok := pt.Underlying().(*types.Array); ok {
						for _, hk := range fv.m.ElemKeys(at.Elem()) {
							acc[hk.Key] = true
						}
					} else {
						for _, k := range fv.allKeysOfType(pt, map[types.Type]bool{}) {
							acc[k] = true
						}
					}
				case *ssa.Store:
					if isLocalFresh(x.Addr) {
						switch a := x.Addr.(type) {
						case *ssa.FieldAddr:
							structT := a.X.Type().Underlying().(*types.Pointer).Elem()
							ft := structT.Underlying().(*types.Struct).Field(a.Field).Type()
							if isStructLike(ft) {
								for _, k := range fv.allKeysOfType(ft, map[types.Type]bool{}) {
									acc[k] = true
								}
							} else {
								for _, hk := range fv.m.FieldKeys(structT, a.Field) {
									acc[hk.Key] = true
								}
							}
						case *ssa.IndexAddr:
							if p, ok := a.X.Type().Underlying().(*types.Pointer); ok {
								for _, hk := range fv.m.ElemKeys(p.Elem().Underlying().(*types.Array).Elem()) {
									acc[hk.Key] = true
								}
							}
						}
					}
				case *ssa.MakeSlice:
					for _, hk := range fv.m.ElemKeys(x.Type().Underlying().(*types.Slice).Elem()) {
						acc[hk.Key] = true
					}
				case *ssa.MakeMap:
					acc[fv.m.MapDomKey(x.Type().Underlying().(*types.Map)).Key] = true
				case *ssa.MapUpdate:
					mt := x.Map.Type().Underlying().(*types.Map)
					acc[fv.m.MapDomKey(mt).Key] = true
					for _, hk := range fv.m.MapValKeys(mt) {
						acc[hk.Key] = true
					}
				case *ssa.MakeInterface:
					if isStructLike(x.X.Type()) {
						for _, k := range fv.allKeysOfType(x.X.Type(), map[types.Type]bool{}) {
							acc[k] = true
						}
					} else if len(fv.m.Flatten(x.X.Type())) > 1 {
						for _, hk := range fv.m.CellKeys(x.X.Type()) {
							acc[hk.Key] = true
						}
					}
				case *ssa.Convert:
					if sl, ok := x.Type().Underlying().(*types.Slice); ok {
						for _, hk := range fv.m.ElemKeys(sl.Elem()) {
							acc[hk.Key] = true
						}
					}
				case ssa.CallInstruction:
					cc := x.Common()
					if bi, ok := cc.Value.(*ssa.Builtin); ok && bi.Name() == "append" {
						if sl, ok := cc.Args[0].Type().Underlying().(*types.Slice); ok {
							for _, hk := range fv.m.ElemKeys(sl.Elem()) {
								acc[hk.Key] = true
							}
						}
					}
					if callee := cc.StaticCallee(); callee != nil && len(callee.Blocks) > 0 {
						if p := pkgOf(callee); p != nil && (isModulePkg(p) || strings.HasPrefix(p.Path(), "github.com/nyaruka/")) {
							walk(callee, depth+1)
						}
					} else if cc.IsInvoke() {
						for _, t := range v.Implementers(cc.Value.Type()) {
							if isTestType(t) {
								continue
							}
							sel := v.prog.MethodSets.MethodSet(t).Lookup(cc.Method.Pkg(), cc.Method.Name())
							if sel == nil {
								continue
							}
							if m := v.prog.MethodValue(sel); m != nil {
								walk(m, depth+1)
							}
						}
					}
				}
			}
		}
	}
	walk(fn, 0)
	return keysOf(acc)
}

func (fv *FuncVC) contractOf(fn *ssa.Function) *Contract {
	if c := fv.v.contracts[fn]; c != nil {
		return c
	}
	if fn.Origin() != nil {
		return fv.v.contracts[fn.Origin()]
	}
	return nil
}

// BodyEffects: transitive write set of fn computed from its body (its own contract is not trusted;
// callee contracts are).
func (v *Verifier) BodyEffects(fv *FuncVC, fn *ssa.Function) ([]string, bool) {
	seen := map[*ssa.Function]bool{}
	acc := map[string]bool{}
	all := false
	d0 := v.directEffectsX(fv, fn, true)
	if d0.all {
		all = true
	}
	for k := range d0.keys {
		acc[k] = true
	}
	seen[fn] = true
	stack := append([]*ssa.Function(nil), d0.callees...)
	for len(stack) > 0 {
		f := stack[len(stack)-1]
		stack = stack[:len(stack)-1]
		if seen[f] {
			continue
		}
		seen[f] = true
		d := v.directEffects(fv, f)
		if d.all {
			all = true
		}
		for k := range d.keys {
			acc[k] = true
			if w := os.Getenv("GOCV_WHO"); w != "" && k == w {
				fmt.Fprintf(os.Stderr, "[who] %s written directly by %s (body effects of %s)\n", k, f, fn)
			}
		}
		stack = append(stack, d.callees...)
	}
	ks, _ := keysOf(acc)
	return ks, all
}

// isModuleKey: heap keys that name state of module types (fields of module structs, elements and
// maps whose element/key types are module types, ghost state).
func isModuleKey(k string) bool {
	return strings.Contains(k, "github.com.nyaruka.goflow") || strings.HasPrefix(k, "G$")
}

// loopGeneralWrites: keys whose writes in the loop may hit objects that existed before the loop
// (everything else in the loop's write set only concerns objects allocated inside the loop, so
// pre-existing objects keep their contents: an automatic frame invariant).
func (fv *FuncVC) loopGeneralWrites(fr *Frame, li *loopInfo) (map[string]bool, bool) {
	acc := map[string]bool{}
	all := false
	add := func(ks []HeapKey) {
		for _, k := range ks {
			acc[k.Key] = true
		}
	}
	freshInLoop := func(addr ssa.Value) bool {
		r := rootOfAddr(addr)
		switch x := r.(type) {
		case *ssa.Alloc:
			return li.blocks[x.Block()]
		case *ssa.IndexAddr:
			return freshSliceIn(x.X, li, map[ssa.Value]bool{})
		}
		return false
	}
	for b := range li.blocks {
		for _, in := range b.Instrs {
			switch x := in.(type) {
			case *ssa.Store:
				if freshInLoop(x.Addr) {
					continue
				}
				switch a := x.Addr.(type) {
				case *ssa.FieldAddr:
					structT := a.X.Type().Underlying().(*types.Pointer).Elem()
					ft := structT.Underlying().(*types.Struct).Field(a.Field).Type()
					if isStructLike(ft) {
						for _, k := range fv.allKeysOfType(ft, map[types.Type]bool{}) {
							acc[k] = true
						}
					} else {
						add(fv.m.FieldKeys(structT, a.Field))
					}
				case *ssa.IndexAddr:
					switch t := a.X.Type().Underlying().(type) {
					case *types.Slice:
						add(fv.m.ElemKeys(t.Elem()))
					case *types.Pointer:
						add(fv.m.ElemKeys(t.Elem().Underlying().(*types.Array).Elem()))
					}
				default:
					pt := x.Addr.Type().Underlying().(*types.Pointer).Elem()
					for _, k := range fv.allKeysOfType(pt, map[types.Type]bool{}) {
						acc[k] = true
					}
				}
			case *ssa.MapUpdate:
				if mm, ok := x.Map.(*ssa.MakeMap); ok && li.blocks[mm.Block()] {
					continue
				}
				mt := x.Map.Type().Underlying().(*types.Map)
				add([]HeapKey{fv.m.MapDomKey(mt)})
				add(fv.m.MapValKeys(mt))
			case ssa.CallInstruction:
				ks, a := fv.callWriteSetX(fr, x, false)
				for _, k := range ks {
					acc[k] = true
				}
				all = all || a
				// copy() writes the destination
				if bi, ok := x.Common().Value.(*ssa.Builtin); ok && bi.Name() == "copy" {
					if sl, ok := x.Common().Args[0].Type().Underlying().(*types.Slice); ok {
						add(fv.m.ElemKeys(sl.Elem()))
					}
				}
			}
		}
	}
	return acc, all
}

func freshSliceIn(v ssa.Value, li *loopInfo, seen map[ssa.Value]bool) bool {
	if seen[v] {
		return true
	}
	seen[v] = true
	switch x := v.(type) {
	case *ssa.MakeSlice:
		return li.blocks[x.Block()]
	case *ssa.Slice:
		if a, ok := x.X.(*ssa.Alloc); ok {
			return li.blocks[a.Block()]
		}
		if _, ok := x.X.Type().Underlying().(*types.Slice); ok {
			return freshSliceIn(x.X, li, seen)
		}
	case *ssa.Call:
		if bi, ok := x.Call.Value.(*ssa.Builtin); ok && bi.Name() == "append" {
			// the model allocates a new backing array on every append (A2)
			return li.blocks[x.Block()]
		}
		if freshSlice(v, map[ssa.Value]bool{}) {
			return li.blocks[x.Block()]
		}
	case *ssa.Convert:
		if _, ok := x.Type().Underlying().(*types.Slice); ok {
			return li.blocks[x.Block()]
		}
	}
	return false
}

// freshMap: the map object was created in this function (so updating it is invisible to the caller
// until it is published): a MakeMap, or the load of a field of an object allocated here into which
// only maps made here are stored.
func freshMap(v ssa.Value, fn *ssa.Function) bool {
	switch x := v.(type) {
	case *ssa.MakeMap:
		return true
	case *ssa.UnOp:
		fa, ok := x.X.(*ssa.FieldAddr)
		if !ok || !isLocalFresh(fa) {
			// a local variable cell
			if a, ok := x.X.(*ssa.Alloc); ok && a.Referrers() != nil {
				n := 0
				for _, ref := range *a.Referrers() {
					if st, ok := ref.(*ssa.Store); ok && st.Addr == a {
						n++
						if _, isMM := st.Val.(*ssa.MakeMap); !isMM {
							return false
						}
					}
				}
				return n > 0
			}
			return false
		}
		// every store in fn to this field of a fresh object stores a MakeMap
		n := 0
		for _, b := range fn.Blocks {
			for _, in := range b.Instrs {
				st, ok := in.(*ssa.Store)
				if !ok {
					continue
				}
				fa2, ok := st.Addr.(*ssa.FieldAddr)
				if !ok || fa2.Field != fa.Field || !types.Identical(fa2.X.Type(), fa.X.Type()) {
					continue
				}
				if rootOfAddr(fa2) != rootOfAddr(fa) {
					continue
				}
				n++
				if _, isMM := st.Val.(*ssa.MakeMap); !isMM {
					return false
				}
			}
		}
		return n > 0
	}
	return false
}
