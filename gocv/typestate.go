package main

// Typestate ("dirty / clean") analysis over the call graph, used for ordering obligations such as
// "after the last write to a queryable contact attribute the query based groups are re-evaluated
// before the engine returns" (C06).
//
// State: one bit (dirty). A *dirtying* instruction (a store to one of the listed fields of an object
// that is not freshly allocated in the same function, an update of one of the listed map types) sets
// it; a call to a *cleaner* (a function whose SMT contract proves the property) clears it. Per
// function two summaries are computed over the SSA control flow graph, path-insensitively:
//   mayKeep(f)  : entered dirty, f may return dirty        (greatest fixed point, starts true)
//   mayDirty(f) : entered clean, f may return dirty        (least fixed point, starts false)
// and a call transfers  s' = (s && mayKeep(callee)) || mayDirty(callee), joined over all possible
// callees (static callee, module implementers of an interface method, closures / function values by
// signature). Functions outside the module are the identity (they cannot name the unexported fields;
// callbacks they invoke are found by signature).

import (
	"encoding/json"
	"fmt"
	"go/token"
	"go/types"
	"sort"
	"strings"

	"golang.org/x/tools/go/ssa"
)

type tsRoot struct {
	Func string `json:"func"`
	Mode string `json:"mode"` // ends_clean | preserves_clean
}

type tsSummary struct {
	MayDirty bool   `json:"may_dirty"`
	MayKeep  bool   `json:"may_keep"`
	Why      string `json:"why"`
}

type tsArgs struct {
	DirtyFields        []string             `json:"dirty_fields"` // "flows.Contact::name"
	DirtyMaps          []string             `json:"dirty_maps"`   // "flows.FieldValues"
	Cleaners           []string             `json:"cleaners"`
	Summaries          map[string]tsSummary `json:"summaries"` // trusted summaries (justified by SMT contracts), by function key
	Roots              []tsRoot             `json:"roots"`
	IgnoreErrorReturns bool                 `json:"ignore_error_returns"` // at roots only
	What               string               `json:"what"`
}

type tsAnalysis struct {
	v        *Verifier
	fields   map[string]map[string]bool // struct type string -> field names
	maps     []types.Type
	cleaner  map[*ssa.Function]bool
	fixed    map[*ssa.Function]tsSummary
	mayKeep  map[*ssa.Function]bool
	mayDirty map[*ssa.Function]bool
	mayDirtyD map[*ssa.Function]dirt
	why      map[*ssa.Function]string // for mayDirty: instruction position or callee
	whyCal   map[*ssa.Function]*ssa.Function
	funcs    []*ssa.Function
	callees  map[ssa.CallInstruction][]*ssa.Function
}

// isDirtyStore: the instruction writes one of the watched locations of an object that is not fresh in
// this function. The third result is the object written when it is one of the function's own
// parameters (then only callers that pass an existing object are affected).
func (a *tsAnalysis) isDirtyStore(in ssa.Instruction) (bool, string, ssa.Value) {
	switch x := in.(type) {
	case *ssa.Store:
		fa, ok := x.Addr.(*ssa.FieldAddr)
		if !ok {
			return false, "", nil
		}
		pt, ok := fa.X.Type().Underlying().(*types.Pointer)
		if !ok {
			return false, "", nil
		}
		st, ok := pt.Elem().Underlying().(*types.Struct)
		if !ok {
			return false, "", nil
		}
		fs := a.fields[types.TypeString(pt.Elem(), nil)]
		if fs == nil || !(fs[st.Field(fa.Field).Name()] || fs["*"]) {
			return false, "", nil
		}
		if isLocalFresh(x.Addr) || freshValue(rootOfAddr(x.Addr), map[ssa.Value]bool{}) {
			return false, "", nil
		}
		return true, "write of " + types.TypeString(pt.Elem(), func(p *types.Package) string { return p.Name() }) + "." + st.Field(fa.Field).Name(), rootOfAddr(x.Addr)
	case *ssa.MapUpdate:
		for _, mt := range a.maps {
			if types.TypeString(x.Map.Type(), nil) == types.TypeString(mt, nil) {
				if freshMap(x.Map, in.Parent()) || freshValue(x.Map, map[ssa.Value]bool{}) {
					return false, "", nil
				}
				return true, "update of a " + types.TypeString(mt, func(p *types.Package) string { return p.Name() }), x.Map
			}
		}
	}
	return false, "", nil
}

// freshValue: the object this pointer / map / slice value denotes was allocated in this function
func freshValue(v ssa.Value, seen map[ssa.Value]bool) bool {
	if seen[v] {
		return true
	}
	seen[v] = true
	switch x := v.(type) {
	case *ssa.Alloc, *ssa.MakeMap, *ssa.MakeSlice:
		return true
	case *ssa.ChangeType:
		return freshValue(x.X, seen)
	case *ssa.Phi:
		for _, e := range x.Edges {
			if !freshValue(e, seen) {
				return false
			}
		}
		return true
	case *ssa.UnOp:
		if al, ok := x.X.(*ssa.Alloc); ok && al.Referrers() != nil {
			n := 0
			for _, ref := range *al.Referrers() {
				if st, ok := ref.(*ssa.Store); ok && st.Addr == ssa.Value(al) {
					n++
					if !freshValue(st.Val, seen) {
						return false
					}
				}
			}
			return n > 0
		}
	}
	return false
}

func paramIndex(f *ssa.Function, v ssa.Value) int {
	for i, p := range f.Params {
		if ssa.Value(p) == v {
			return i
		}
	}
	return -1
}

func (a *tsAnalysis) calleesAt(fn *ssa.Function, ci ssa.CallInstruction) []*ssa.Function {
	if cs, ok := a.callees[ci]; ok {
		return cs
	}
	v := a.v
	cc := ci.Common()
	var out []*ssa.Function
	switch {
	case cc.IsInvoke():
		for _, t := range v.Implementers(cc.Value.Type()) {
			if isTestType(t) {
				continue
			}
			sel := v.prog.MethodSets.MethodSet(t).Lookup(cc.Method.Pkg(), cc.Method.Name())
			if sel == nil {
				continue
			}
			if m := v.prog.MethodValue(sel); m != nil {
				out = append(out, m)
			}
		}
	case cc.StaticCallee() != nil:
		out = append(out, cc.StaticCallee())
	default:
		if _, isB := cc.Value.(*ssa.Builtin); !isB {
			if mc, ok := cc.Value.(*ssa.MakeClosure); ok {
				out = append(out, mc.Fn.(*ssa.Function))
			} else {
				v.buildAddrTaken()
				for _, f := range effIdx.addrTaken[sigKey(cc.Signature())] {
					if p := pkgOf(f); p != nil && isTestPkgPath(p.Path()) {
						continue
					}
					out = append(out, f)
				}
			}
		}
	}
	a.callees[ci] = out
	return out
}

// dirt: g = some existing object other than the function's own parameters may have been written;
// p = bit set of own parameters whose object may have been written
type dirt struct {
	g bool
	p uint64
}

func (d dirt) any() bool        { return d.g || d.p != 0 }
func (d dirt) join(o dirt) dirt { return dirt{d.g || o.g, d.p | o.p} }

func (a *tsAnalysis) summary(f *ssa.Function) (mayDirty dirt, mayKeep bool) {
	if s, ok := a.fixed[f]; ok {
		return dirt{g: s.MayDirty}, s.MayKeep
	}
	if a.cleaner[f] {
		return dirt{}, false
	}
	if len(f.Blocks) == 0 {
		return dirt{}, true
	}
	mk, ok := a.mayKeep[f]
	if !ok {
		mk = true
	}
	return a.mayDirtyD[f], mk
}

// definitelyErrorReturn: the return hands back a non-nil error (so no session is handed back)
func definitelyErrorReturn(ret *ssa.Return) bool {
	if len(ret.Results) == 0 {
		return false
	}
	last := ret.Results[len(ret.Results)-1]
	if !types.Identical(last.Type(), types.Universe.Lookup("error").Type()) {
		return false
	}
	if c, ok := last.(*ssa.Const); ok {
		return !c.IsNil()
	}
	// result of a constructor that never returns nil
	if call, ok := last.(*ssa.Call); ok {
		if sc := call.Common().StaticCallee(); sc != nil {
			switch sc.String() {
			case "fmt.Errorf", "errors.New", "github.com/nyaruka/goflow/flows/engine.newError":
				return true
			}
		}
	}
	if mi, ok := last.(*ssa.MakeInterface); ok {
		_ = mi
		return true
	}
	// dominated by the true edge of `if v != nil`
	b := ret.Block()
	for d := b; d != nil; d = d.Idom() {
		id := d.Idom()
		if id == nil {
			break
		}
		ifi, ok := id.Instrs[len(id.Instrs)-1].(*ssa.If)
		if !ok {
			continue
		}
		bo, ok := ifi.Cond.(*ssa.BinOp)
		if !ok {
			continue
		}
		isNilC := func(x ssa.Value) bool { c, ok := x.(*ssa.Const); return ok && c.IsNil() }
		if bo.Op == token.NEQ && (bo.X == last && isNilC(bo.Y) || bo.Y == last && isNilC(bo.X)) && id.Succs[0] == d && len(d.Preds) == 1 {
			return true
		}
		if bo.Op == token.EQL && (bo.X == last && isNilC(bo.Y) || bo.Y == last && isNilC(bo.X)) && id.Succs[1] == d && len(d.Preds) == 1 {
			return true
		}
	}
	return false
}

// flow runs the intra-procedural analysis of f with the given entry state; withDirt: dirtying
// instructions count. Returns the join over the (considered) returns and a reason when dirty.
func (a *tsAnalysis) flow(f *ssa.Function, entry bool, withDirt bool, skipErrRet bool) (dirt, string, *ssa.Function) {
	out := map[*ssa.BasicBlock]dirt{}
	reason := map[*ssa.BasicBlock]string{}
	reasonF := map[*ssa.BasicBlock]*ssa.Function{}
	if len(f.Blocks) == 0 {
		return dirt{g: entry}, "", nil
	}
	changed := true
	for changed {
		changed = false
		for _, b := range f.Blocks {
			var s dirt
			var r string
			var rf *ssa.Function
			if b == f.Blocks[0] && entry {
				s.g = true
				r = "dirty at entry"
			}
			for _, p := range b.Preds {
				if out[p].any() && !s.any() {
					r, rf = reason[p], reasonF[p]
				}
				s = s.join(out[p])
			}
			for _, ins := range b.Instrs {
				if withDirt {
					if d, what, root := a.isDirtyStore(ins); d {
						if !s.any() {
							r = what + " at " + a.v.prog.Fset.Position(ins.Pos()).String()
							rf = nil
						}
						if pi := paramIndex(f, root); pi >= 0 && pi < 64 {
							s.p |= 1 << uint(pi)
						} else {
							s.g = true
						}
						continue
					}
				}
				ci, ok := ins.(ssa.CallInstruction)
				if !ok {
					continue
				}
				cs := a.calleesAt(f, ci)
				if len(cs) == 0 {
					continue
				}
				var ns dirt
				var nr string
				var nrf *ssa.Function
				cc := ci.Common()
				for _, c := range cs {
					md, mk := a.summary(c)
					if !withDirt {
						md = dirt{}
					}
					if s.any() && mk {
						if !ns.any() {
							nr, nrf = r, rf
						}
						ns = ns.join(s)
					}
					// translate the callee's parameter dirt to this call's actuals
					var add dirt
					add.g = md.g
					if md.p != 0 {
						var actuals []ssa.Value
						if cc.IsInvoke() {
							actuals = append(actuals, cc.Value)
						}
						actuals = append(actuals, cc.Args...)
						if mc, ok := cc.Value.(*ssa.MakeClosure); ok && !cc.IsInvoke() && cc.StaticCallee() == nil {
							_ = mc
						}
						for pi := 0; pi < len(c.Params) && pi < 64; pi++ {
							if md.p&(1<<uint(pi)) == 0 {
								continue
							}
							if pi >= len(actuals) {
								add.g = true
								continue
							}
							act := actuals[pi]
							if freshValue(act, map[ssa.Value]bool{}) {
								continue
							}
							if cc.IsInvoke() && pi == 0 {
								// receiver is an interface value: fresh only if built from a fresh object
								if mi, ok := act.(*ssa.MakeInterface); ok && freshValue(mi.X, map[ssa.Value]bool{}) {
									continue
								}
							}
							if opi := paramIndex(f, act); opi >= 0 && opi < 64 {
								add.p |= 1 << uint(opi)
							} else {
								add.g = true
							}
						}
					}
					if add.any() {
						if !ns.any() {
							nr = "call at " + a.v.prog.Fset.Position(ins.Pos()).String()
							nrf = c
						}
						ns = ns.join(add)
					}
				}
				s, r, rf = ns, nr, nrf
			}
			if out[b] != s {
				out[b] = s
				changed = true
			}
			if s.any() {
				reason[b], reasonF[b] = r, rf
			}
		}
	}
	var res dirt
	var why string
	var whyF *ssa.Function
	for _, b := range f.Blocks {
		if len(b.Instrs) == 0 {
			continue
		}
		ret, ok := b.Instrs[len(b.Instrs)-1].(*ssa.Return)
		if !ok {
			continue
		}
		if skipErrRet && definitelyErrorReturn(ret) {
			continue
		}
		if out[b].any() {
			if !res.any() {
				why, whyF = reason[b], reasonF[b]
			}
			res = res.join(out[b])
		}
	}
	return res, why, whyF
}

func (a *tsAnalysis) run() {
	// mayKeep: greatest fixed point
	for _, f := range a.funcs {
		a.mayKeep[f] = true
	}
	for changed := true; changed; {
		changed = false
		for _, f := range a.funcs {
			if a.cleaner[f] || !a.mayKeep[f] {
				continue
			}
			if _, fx := a.fixed[f]; fx {
				continue
			}
			k, _, _ := a.flow(f, true, false, false)
			if !k.any() {
				a.mayKeep[f] = false
				changed = true
			}
		}
	}
	// mayDirty: least fixed point
	for changed := true; changed; {
		changed = false
		for _, f := range a.funcs {
			if a.cleaner[f] {
				continue
			}
			if _, fx := a.fixed[f]; fx {
				continue
			}
			d, why, whyF := a.flow(f, false, true, false)
			if d != a.mayDirtyD[f] {
				if !a.mayDirtyD[f].any() {
					a.why[f] = why
					a.whyCal[f] = whyF
				}
				a.mayDirtyD[f] = a.mayDirtyD[f].join(d)
				a.mayDirty[f] = true
				changed = true
			}
		}
	}
}

func (a *tsAnalysis) chain(why string, f *ssa.Function) string {
	var parts []string
	parts = append(parts, why)
	seen := map[*ssa.Function]bool{}
	for f != nil && !seen[f] && len(parts) < 12 {
		seen[f] = true
		if s, ok := a.fixed[f]; ok {
			parts = append(parts, shortKey(f)+" (declared summary: "+s.Why+")")
			break
		}
		parts = append(parts, "in "+shortKey(f)+": "+a.why[f])
		f = a.whyCal[f]
	}
	return strings.Join(parts, " -> ")
}

func (v *Verifier) typestate(cfg PropConfig, sc StructuralCheck) []StructResult {
	var args tsArgs
	if err := json.Unmarshal(sc.Args, &args); err != nil {
		engineErr("structural %s: %v", sc.Name, err)
	}
	a := &tsAnalysis{v: v, fields: map[string]map[string]bool{}, cleaner: map[*ssa.Function]bool{}, fixed: map[*ssa.Function]tsSummary{},
		mayKeep: map[*ssa.Function]bool{}, mayDirty: map[*ssa.Function]bool{}, mayDirtyD: map[*ssa.Function]dirt{}, why: map[*ssa.Function]string{}, whyCal: map[*ssa.Function]*ssa.Function{},
		callees: map[ssa.CallInstruction][]*ssa.Function{}}
	for _, df := range args.DirtyFields {
		i := strings.Index(df, "::")
		if i < 0 {
			engineErr("structural %s: bad dirty field %q", sc.Name, df)
		}
		t, err := v.ResolveType(df[:i], nil)
		if err != nil {
			engineErr("structural %s: %v", sc.Name, err)
		}
		st, ok := t.Underlying().(*types.Struct)
		if !ok {
			engineErr("structural %s: %s is not a struct", sc.Name, df[:i])
		}
		found := df[i+2:] == "*"
		for j := 0; j < st.NumFields(); j++ {
			if st.Field(j).Name() == df[i+2:] {
				found = true
			}
		}
		if !found {
			engineErr("structural %s: no field %s", sc.Name, df)
		}
		k := types.TypeString(t, nil)
		if a.fields[k] == nil {
			a.fields[k] = map[string]bool{}
		}
		a.fields[k][df[i+2:]] = true
	}
	for _, dm := range args.DirtyMaps {
		t, err := v.ResolveType(dm, nil)
		if err != nil {
			engineErr("structural %s: %v", sc.Name, err)
		}
		a.maps = append(a.maps, t)
	}
	find := func(key string) *ssa.Function {
		fn := v.funcsByKey[modulePath+"/"+key]
		if fn == nil {
			engineErr("structural %s: function %s not found in /repo (renamed or removed?)", sc.Name, key)
		}
		return fn
	}
	for _, c := range args.Cleaners {
		a.cleaner[find(c)] = true
	}
	for k, s := range args.Summaries {
		a.fixed[find(k)] = s
	}
	a.funcs = v.moduleFunctions(false)
	sort.Slice(a.funcs, func(i, j int) bool { return a.funcs[i].String() < a.funcs[j].String() })
	a.run()
	var out []StructResult
	nDirty := 0
	for _, f := range a.funcs {
		if a.mayDirty[f] {
			nDirty++
		}
	}
	for _, r := range args.Roots {
		f := find(r.Func)
		name := fmt.Sprintf("%s/structural/typestate[%s:%s]", cfg.ID, sc.Name, r.Func)
		dd, why, whyF := a.flow(f, false, true, args.IgnoreErrorReturns)
		d := dd.any()
		ok := !d
		detail := ""
		if d {
			detail = "may return dirty: " + a.chain(why, whyF)
		}
		text := fmt.Sprintf("%s: entered clean, %s returns clean on every non-error path", args.What, r.Func)
		if r.Mode == "ends_clean" {
			k, _, _ := a.flow(f, true, false, args.IgnoreErrorReturns)
			text = fmt.Sprintf("%s: %s returns clean on every non-error path whatever the state at entry", args.What, r.Func)
			if k.any() {
				ok = false
				detail += " a path from entry to a non-error return passes no cleaner;"
			}
		}
		if ok {
			detail = fmt.Sprintf("%d module functions analysed, %d may dirty; cleaners %v", len(a.funcs), nDirty, args.Cleaners)
		}
		out = append(out, StructResult{Name: name, Kind: "typestate", Text: text, Detail: detail, OK: ok})
	}
	return out
}
